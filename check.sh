#!/bin/sh
# usage: check.sh <property> <quick|thorough>   (cwd = /verif)
# Rebuilds the encoding from /repo's current working tree on every run.
export GOFLAGS=-mod=mod GOPROXY=off GOSUMDB=off GOTOOLCHAIN=local
cd "$(dirname "$0")" || exit 2
if [ ! -x bin/gosym ] || [ -n "$(find engine -name '*.go' -newer bin/gosym 2>/dev/null)" ]; then
  (cd engine && go build -o ../bin/gosym .) || { echo "engine build failed"; exit 2; }
fi
exec ./bin/gosym check -prop "$1" -tier "${2:-quick}"
