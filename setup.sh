#!/bin/sh
export GOFLAGS=-mod=mod GOPROXY=off GOSUMDB=off GOTOOLCHAIN=local
cd "$(dirname "$0")/engine" && go build -o ../bin/gosym . && echo "gosym built"
