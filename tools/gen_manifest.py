#!/usr/bin/env python3
"""Regenerates /verif/MANIFEST.json from the table below."""
import json, os
here = os.path.dirname(os.path.dirname(os.path.abspath(__file__)))
props = [json.loads(l) for l in open(os.path.join(here, 'properties.jsonl'))]

TECH = "bounded symbolic execution of the real go/ssa code (gosym) with SMT (z3/cvc5) deciding every obligation; models replayed natively"
NOTE = ("trusted: gosym interpreter and simplifier (cross-checked on every run by native replay of path witnesses and observe comparison), "
        "z3 4.8.12 / cvc5 1.0, contract models for strconv/fmt/time/sync listed in DESIGN.md 2.3; bounds per evidence file")

# id -> (claimed text, design_ref) ; absent => not_applicable with reason
CLAIMED = {
 "C02": ("the real parseEvents run on every history derivable from the unit grammar of the property (tx closed by XID / COMMIT / ROLLBACK, DDL, autocommitted rows, statement-format DML in and out of BEGIN..COMMIT, rotation) with U<=2 units (thorough 3) and up to 2 ignorable events (GTID, previous-GTIDs, unknown event type, SAVEPOINT/flush/empty statements) inserted at every position: one handler call per committed unit, exactly at the moment its commit event has been read from the channel, with exactly its changes in order (empty for ROLLBACK); plus GetStatementCategory for every casing of all 12 keywords (symbolic case bits) and one-letter non-keywords", "DESIGN.md 3/C02"),
 "C03": ("parseEvents on grammar-generated histories (U<=2, thorough 3) with SYMBOLIC 32-bit next-position fields, 64-bit rotate offsets and start offset: every delivered label proved equal to previous end label / initial position / rotation target, end label = commit event's next-position in the current file; two-run self-composition: a fresh streamer started at the end label of any delivered transaction k on the stream a master serves from there (fake ROTATE, FDE, suffix) delivers exactly transactions k+1.. with identical contents and labels", "DESIGN.md 3/C03"),
 "C04": ("parseEvents on grammar-generated histories (U<=2; thorough 3) with one fault of each kind at every event index (handler rejects transaction j, mapper error, mapper column-count mismatch, invalid event, RAND/INTVAR/ROWS_QUERY event, accessor decode error, channel closed, context cancelled incl. both outcomes of the racing select): the returned position (which Stream stores for the next attempt) equals the end label of the last ACCEPTED transaction moved by rotations consumed after it, and no transaction is delivered after a failure. Stream's own write-back/attempt loop is covered by C07's harness when claimed", "DESIGN.md 3/C04"),
 "C08": ("behavioural overwrite-then-observe harnesses on the real code: (a) readBinlogEvent with a scripted connection that hands out windows of ONE reused receive buffer (packets 8..32 bytes; thorough 4100): an event's bytes (all symbolic) are unchanged after the next packet overwrites the buffer, writes through one event reach neither the buffer nor another event; (b) CellBytes for 13 cell shapes incl. zero and non-zero TIMESTAMP/TIMESTAMP2: after every byte of a returned value is overwritten with arbitrary bytes, decoding the same cell from another buffer gives the reference result and neighbouring bytes of the event buffer are intact; (c) getValuesFromRow on 6 column sets, 2 rows: overwriting any delivered value changes no other delivered value", "DESIGN.md 3/C08"),
 "C09": ("(a) cellLength == bytes consumed by CellBytes for every supported type over its whole metadata domain (metadata and cell bytes symbolic; NEWDECIMAL via concrete (p,s)); (b) binlogEvent.Rows on events from an independent writer: row count, presence bitmaps, NULL bitmaps and every before/after image byte-for-byte, images consumed exactly by the per-type length rule, for write/update/delete, v1/v2, 4/6-byte table ids, extra data, all presence/NULL patterns of 2-3 column tables and pattern-sampled 9/17-column tables, 0..2 rows", "DESIGN.md 3/C09"),
 "C10": ("CellBytes numeric cases against an independent two's-complement / unsigned reference for the ENTIRE 8/16/24/32/64-bit domains in both signedness modes (text must be canonical decimal that parses to the exact value), FLOAT/DOUBLE round-trip through strconv's documented shortest-representation contract, YEAR, BIT(1..64) with symbolic metadata, ENUM 1-2 bytes, SET 1..8 bytes; every cell byte is a solver variable", "DESIGN.md 3/C10"),
 "C11": ("CellBytes NEWDECIMAL for (p,s) pairs (quick: all p<=20 plus group-boundary precisions, 278 pairs; thorough: all 1580 valid pairs): every storage byte symbolic, every representable value; the text is scanned ('-', canonical integer digits, '.', exactly s digits) and every 9-digit group proved equal to the reference from MySQL decimal.c; cellLength agreement included", "DESIGN.md 3/C11"),
 "C12": ("CellBytes DATE/NEWDATE, old TIME/DATETIME/TIMESTAMP, TIMESTAMP2/DATETIME2/TIME2 with fsp 0..6: output text scanned field by field (separators, widths, digits) and every numeric field proved equal to a reference decoder written from MySQL's my_time.c, for all cell bytes denoting valid values (all 2^24..2^48 raw values symbolic); TIMESTAMP fields are the Local-zone calendar fields (uninterpreted functions of (zone, instant))", "DESIGN.md 3/C12"),
 "C13": ("CellBytes for VARCHAR/VAR_STRING/STRING/TINY..LONG BLOB/GEOMETRY with symbolic metadata (decides 1..4 prefix bytes), symbolic prefix and payload in buffers of 40 and 300 bytes (thorough 1200): value is non-nil, has exactly the logged length and its i-th byte is the logged byte for a universally quantified index i; consumed = prefix+length; cellLength agrees; getValuesFromRow/getIdentifiesFromRow on 2-3 (thorough 4) column tables with every presence/NULL pattern and empty/non-empty values: absent => IsEmpty && Data==nil, NULL => !IsEmpty && Data==nil, empty string => non-nil empty data, otherwise the logged bytes", "DESIGN.md 3/C13"),
 "C14": ("printJSONData / CellBytes(TypeJSON) on documents laid out by an independent binary-JSON writer (after json_binary.cc) in the small and the large format: (a) every scalar kind (literals, int16/uint16/int32/uint32/int64/uint64 over their full ranges, double via strconv's contract, strings, opaque DATE/TIME incl. both signs/DATETIME packed fields, opaque DECIMAL) at top level, inlined and out-of-line inside arrays and objects; (b) all document structures of depth <= 2 (thorough 3), fan-out <= 2 over cheap scalars and nested arrays/objects: rendered text proved byte-equal to a reference rendering of the document (keys, values, order, nesting)", "DESIGN.md 3/C14"),
 "C15": ("binlogEvent.TableMap/TableID on events from an independent writer: names (0..255 bytes), flags, 4/6-byte table ids, 1-2 (thorough 3) columns over ALL pairs of the 31 supported types with symbolic metadata bytes (byte order per type), nullability bits, trailing optional-metadata bytes, and 250/251/252 (thorough 300/600) columns with multi-byte column counts. Second half (VH_C15_Cache): parseEvents with two table ids, re-announcements with changed column types inside and across transactions: rows attributed to the announced table, decoded with the most recent table map, column names from the mapper by ordinal, mapper consulted once per id with the announced names; column-count mismatch -> error (C04 fault kind 2)", "DESIGN.md 3/C15"),
 "C16": ("header accessors and Format/Rotate/Query/IntVar/Rand on events from an independent writer with every field symbolic: format description (server version 0/5/50 bytes, header-size tables of 27/38 (thorough 165/255) entries, checksum byte, version!=4 and header length<19 rejected), rotate (64-bit position, names 0..16 bytes), query (all MySQL-order subsets of status variables 0,1,6|2,3,4,5,7,8..20 with arbitrary payloads, db 0/3 (thorough ..255) bytes, SQL 0/5 (thorough 70000) bytes, charset iff Q_CHARSET_CODE), intvar/rand; each for checksum off / CRC32 (4 arbitrary trailing bytes) / undefined and for both flavors' StripChecksum", "DESIGN.md 3/C16"),
 "C18": ("Mysql56GTIDSet.AddGTID/ContainsGTID/Contains/Equal from ARBITRARY canonical pre-states: interval lists of length 0..3 (thorough 0..5) with symbolic 63-bit bounds under the canonical-form invariant, 1-3 SIDs, both map iteration orders; AddGTID result proved equal to the union for a universally quantified probe element, canonical again, original map and slices unchanged; Contains/Equal proved equal to a finite interval characterisation which is itself linked to the element-wise meaning by solver lemmas; plus sequences of 2-3 (thorough 5) AddGTID from the empty set", "DESIGN.md 3/C18"),
 "C19": ("round trips String()->parser and EncodeGTID->DecodeGTID for ALL 16-byte SIDs and sequence numbers 1..2^63-1 (MySQL 5.6) and all domain/server/sequence values (MariaDB; one field full-range per root), text and SID-block round trips of 5.6 sets (<=2x2 intervals quick, 3x3 thorough; text bounds <1000, block bounds full range), GTID / PREVIOUS_GTIDS / MariaDB GTID events from an independent writer, MariaDB set AddGTID (one position per domain, larger sequence wins, receiver's visible elements unchanged) and ContainsGTID/Contains for sets of 0..3 members with symbolic members", "DESIGN.md 3/C19"),
 "C17": ("IsValid <=> len>=19 && length field == len, and all header accessors agree with the header bytes, for every byte string of each length 0..64 (thorough 0..300): every byte is a solver variable, every obligation is an unsat query; gate in parseEvents: an invalid event injected at every index of grammar-generated histories (U<=2) ends the stream with an error, no method other than IsValid is called on it, nothing is delivered afterwards, position stays at the last accepted boundary", "DESIGN.md 3/C17"),
}
NA_DEFAULT = "not yet reached by the encoder (build in progress)"
NA = {}

m = {
 "version": 1,
 "setup_cmd": "./setup.sh",
 "hooks": {"guard": "verif", "enable": "harness files (//go:build verif) are injected with go/packages Overlay and `go test -tags verif -overlay`; nothing is committed to /repo",
           "baseline_off_cmd": "cd /repo && GOFLAGS=-mod=mod GOPROXY=off go test -vet=off -count=1 ./...", "source_commits": [], "add_only": True},
 "engines": [{"name": "gosym", "path": "engine/", "serves_properties": sorted(CLAIMED), "kind_free_text": "symbolic executor for go/ssa + SMT-LIB2 back end (z3 -in, cvc5 --incremental) + native replay"}],
 "checks": [], "not_applicable": [],
 "notes": "All checks: ./check.sh <id> <tier>. Evidence level model_checking: states = completed symbolic paths, transitions = decisions.",
}
for p in props:
    i = p['id']
    if i in CLAIMED:
        text, ref = CLAIMED[i]
        m["checks"].append({
            "property_id": i,
            "quick_cmd": f"./check.sh {i} quick",
            "thorough_cmd": f"./check.sh {i} thorough",
            "evidence_file": f"/verif/evidence/{i}.json",
            "replay_cmd_template": "./bin/gosym replay {path}",
            "engine": "gosym",
            "level_claimed": {"category": "model_checking", "text": text, "design_ref": ref},
            "level_note": NOTE,
            "technique": TECH,
        })
    else:
        m["not_applicable"].append({"property_id": i, "reason": NA.get(i, NA_DEFAULT)})
json.dump(m, open(os.path.join(here, 'MANIFEST.json'), 'w'), indent=1)
print("claimed", len(m["checks"]), "na", len(m["not_applicable"]))
