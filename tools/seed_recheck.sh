#!/bin/bash
# usage: seed_recheck.sh <seed-id> [<check-prop>...]
# Re-runs checks against a stored seeded change: makes a scratch worktree of /repo's HEAD under /tmp,
# applies /verif/seeded/<id>/patch.diff, copies the demonstration in, re-confirms it (existing tests pass,
# demo fails with / passes without the change), runs the given quick checks (default: the property in
# meta.json) with VERIF_REPO pointing at the worktree, rewrites confirm.log / detect.log and removes the
# worktree.  /repo itself is never modified.
set -u
export GOFLAGS=-mod=mod GOPROXY=off GOSUMDB=off GOTOOLCHAIN=local
ID=$1; shift
S=/verif/seeded/$ID
[ -s $S/patch.diff ] || { echo "no such seed $ID"; exit 2; }
PROPS="$*"
if [ -z "$PROPS" ]; then PROPS=$(python3 -c "import json;m=json.load(open('$S/meta.json'));print(' '.join(m.get('checks_run',[m['property']])))"); fi
PROP=$(echo $ID | cut -c1-3)
WT=$(mktemp -d /tmp/seedwt.XXXXXX)
rmdir $WT
git -C /repo worktree add -q --detach $WT HEAD || exit 2
trap 'git -C /repo worktree remove --force $WT 2>/dev/null; rm -rf $WT' EXIT
cp $S/patch.diff $WT/patch.diff
(cd $S/demo && find . -type f) | while read f; do mkdir -p $WT/$(dirname $f); cp $S/demo/$f $WT/$f; done
[ -f $S/NOTES.md ] && cp $S/NOTES.md $WT/NOTES.md
/verif/tools/seed_eval.sh $WT $ID $PROP $PROPS
