#!/bin/bash
# usage: seed_eval.sh <worktree> <seed-id> <breaks-prop> [<check-prop>...]
# 1. confirms a seeded change in its scratch worktree: existing tests pass with it, the
#    demonstration (untracked *_test.go files, tests named TestDemo*) fails with it and passes without it;
# 2. stores patch.diff, demo/, NOTES.md under /verif/seeded/<seed-id>/ and writes confirm.log;
# 3. runs the given quick checks (default: the broken property) with VERIF_REPO=<worktree> (patch applied,
#    demo files moved aside) -- /repo itself is never touched -- and records the outcome in detect.log.
set -u
export GOFLAGS=-mod=mod GOPROXY=off GOSUMDB=off GOTOOLCHAIN=local
WT=$1; ID=$2; PROP=$3; shift 3
CHECKS="${*:-$PROP}"
OUT=/verif/seeded/$ID
mkdir -p $OUT
cd $WT || exit 2
[ -s patch.diff ] || { echo "no patch.diff in $WT"; exit 2; }
cp patch.diff $OUT/patch.diff
git diff --quiet 2>/dev/null; git checkout -q -- . 2>/dev/null
git apply $OUT/patch.diff || { echo "patch does not apply to a clean checkout"; exit 2; }
DEMOS=$(git ls-files --others --exclude-standard | grep "_test.go$")
[ -n "$DEMOS" ] || { echo "no demo test file"; exit 2; }
{
echo "## existing tests with the change (demo moved aside)"
for f in $DEMOS; do mv $f $f.aside; done
go build ./... 2>&1 | tail -3
go test -vet=off -count=1 ./... 2>&1 | grep -v "no test files" | tail -4
for f in $DEMOS; do mv $f.aside $f; done
echo "## demo with the change (must FAIL)"
go test -vet=off -count=1 -run 'Test_?Demo' ./... 2>&1 | grep -v "no test files\|no tests to run" | tail -6
git apply -R $OUT/patch.diff
echo "## demo without the change (must PASS)"
go test -vet=off -count=1 -run 'Test_?Demo' ./... 2>&1 | grep -v "no test files\|no tests to run" | tail -4
git apply $OUT/patch.diff
} > $OUT/confirm.log 2>&1
cat $OUT/confirm.log
rm -rf $OUT/demo
for f in $DEMOS; do mkdir -p $OUT/demo/$(dirname $f); cp $f $OUT/demo/$f; done
[ -f NOTES.md ] && cp NOTES.md $OUT/NOTES.md
echo "## checks with the change (VERIF_REPO=$WT)"
for f in $DEMOS; do mv $f $f.aside; done
: > $OUT/detect.log
cd /verif
for p in $CHECKS; do
  s=$(date +%s)
  VERIF_REPO=$WT ./bin/gosym check -prop $p -tier quick -noevidence > /tmp/seed_${ID}_${p}.log 2>&1
  rc=$?
  echo "check $p exit=$rc $(( $(date +%s)-s ))s" | tee -a $OUT/detect.log
  { grep -A1 "^VIOLATION" /tmp/seed_${ID}_${p}.log | grep -v "^--" | head -6; grep "^INCONCLUSIVE\|^ENGINE-MISMATCH" /tmp/seed_${ID}_${p}.log | head -3; grep "^SUMMARY" /tmp/seed_${ID}_${p}.log; } | cut -c1-400 | tee -a $OUT/detect.log
  rm -f /tmp/seed_${ID}_${p}.log
done
cd $WT; for f in $DEMOS; do mv $f.aside $f; done
