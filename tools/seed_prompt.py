"""Prompt generator for the sub-agents that seed changes (DESIGN.md section 8).
usage: seed_prompt.py <property-id> <worktree> [<extra text: ideas already taken>]
It prints the task text: the property (statement, quantifier, anchors from properties.jsonl), the rules
(small realistic change, compiles, existing tests pass, needs something specific to manifest) and the
deliverables (patch.diff, zz_demo_test.go, NOTES.md).  Nothing from /verif other than the property text goes in."""
import sys
pid, wt, extra = sys.argv[1], sys.argv[2], (sys.argv[3] if len(sys.argv)>3 else "")
import json, os
_here = os.path.dirname(os.path.dirname(os.path.abspath(__file__)))
prop = ""
for _l in open(os.path.join(_here, 'properties.jsonl')):
    _p = json.loads(_l)
    if _p['id'] == pid:
        prop = "%s — %s\n\n%s\n\nQuantified over: %s\n\nCode anchors (files): %s\n" % (_p['id'], _p['title'], _p['statement'], _p['quantifier']['text'], ", ".join(_p['anchors']['files']))
print(f"""You are helping to evaluate a verification effort by seeding a realistic defect (mutation seeding). Work ONLY inside the git worktree at {wt} (a checkout of the Go library github.com/Breeze0806/gobinlog: a MySQL replica client that reads the binlog dump stream and parses row-based events into transactions). Do not read or touch /repo, /verif or any directory outside your worktree (reading the Go standard library / module cache sources is fine). Never use `git stash` (the stash is shared between worktrees), never commit, never switch branches, never run `git checkout` on anything but files of your own worktree.

Environment for every shell call (no network is available): `export GOFLAGS=-mod=mod GOPROXY=off GOSUMDB=off GOTOOLCHAIN=local`

Property that the library is supposed to satisfy:

{prop}
Task: devise ONE small, realistic change to the library's non-test source — the kind of regression a maintainer could plausibly introduce (refactoring slip, off-by-one, wrong variable, missed case, reordered statements, an "optimisation" that drops a copy or a check, a changed type width, ...) — that BREAKS this property, such that
 (1) the code still compiles: `go build ./...`;
 (2) the existing test suite still passes, unedited: `go test -vet=off -count=1 ./...`;
 (3) the breakage needs something specific to manifest — a particular interleaving, a crash or fault at a particular point, a multi-step sequence of operations, an unusual input value or boundary, or two cooperating sites that each look fine alone — NOT something ordinary use would expose at once.
Do not modify or delete existing tests, do not add build tags, keep the diff small (ideally < 25 changed lines). {extra}

Deliver, in the worktree root:
 - the change applied to the source, and `patch.diff` produced with `git diff > patch.diff` (tracked source files only; it must apply to a clean checkout with `git apply patch.diff`);
 - a demonstration: a NEW untracked test file named `zz_demo_test.go` placed in the package directory it needs (package-internal tests are fine) with a test named `TestDemo...` that FAILS with the change and PASSES without it. Verify both directions yourself (`git apply -R patch.diff` then run, `git apply patch.diff` then run). It must not need network or a real MySQL server and must finish in a few seconds;
 - `NOTES.md`: what the change is, why it breaks the property, exactly what is needed to make it manifest, the commands you ran and their outcomes.
Final state of the worktree: patch applied, demo file present, patch.diff and NOTES.md in the root.

Report back in at most 8 lines: file/function changed, the trigger condition, the demo test name and its package directory, and the observed outcomes of the three commands (existing tests with change; demo with change; demo without change).""")
