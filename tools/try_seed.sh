#!/bin/bash
# usage: try_seed.sh <worktree> <seed-id> <demo-test-regex> <prop> [<prop>...]
# Confirms a seeded change in its scratch worktree (existing tests pass with it, the
# demonstration fails with it and passes without it), then applies it to /repo, runs the
# given checks and undoes it straight afterwards.
set -u
export GOFLAGS=-mod=mod GOPROXY=off GOSUMDB=off GOTOOLCHAIN=local
WT=$1; ID=$2; DEMO=$3; shift 3
OUT=/verif/seeded/$ID
mkdir -p $OUT
cd $WT || exit 2
cp $WT/patch.diff $OUT/patch.diff
# the worktrees share one stash: never use it; rebuild the state from the patch
git checkout -q -- . && git apply $OUT/patch.diff || { echo "patch does not apply in worktree"; exit 2; }
echo "--- patch"; cat $OUT/patch.diff | grep "^[-+]" | head -40
DEMOS=$(git ls-files --others --exclude-standard | grep "_test.go")
echo "--- existing tests with the change (demo moved aside)"
for f in $DEMOS; do mv $f $f.aside; done
go build ./... && go test -vet=off -count=1 ./... 2>&1 | grep -v "no test files" | tail -3
for f in $DEMOS; do mv $f.aside $f; done
echo "--- demo with the change (must fail)"
go test -vet=off -count=1 -run "$DEMO" ./... 2>&1 | grep -v "no test files\|no tests to run" | tail -4
git apply -R $OUT/patch.diff
echo "--- demo without the change (must pass)"
go test -vet=off -count=1 -run "$DEMO" ./... 2>&1 | grep -v "no test files\|no tests to run" | tail -3
git apply $OUT/patch.diff
rm -rf $OUT/demo
for f in $DEMOS; do mkdir -p $OUT/demo/$(dirname $f); cp $f $OUT/demo/$f; done
cp NOTES.md $OUT/NOTES.md 2>/dev/null
echo "--- checks against /repo with the patch"
git -C /repo apply $OUT/patch.diff || { echo "patch does not apply to /repo"; exit 2; }
cd /verif
for p in "$@"; do
  ./bin/gosym check -prop $p -tier quick -noevidence 2>&1 | grep "^VIOLATION\|^SUMMARY\|^INCONCLUSIVE\|^ENGINE-MISMATCH\|^  root=" | cut -c1-330 | head -7
done
git -C /repo checkout -- .
git -C /repo status --short
