#!/usr/bin/env python3
"""Writes /verif/seeded/<id>/meta.json for every seeded change from the table below plus the
confirm.log / detect.log that tools/seed_eval.sh produced, and prints the detection matrix
(markdown) used in DESIGN.md section 8."""
import json, os, re, sys
here = os.path.dirname(os.path.dirname(os.path.abspath(__file__)))
SEEDS = {
 # id: (property, what the change is, what it needs in order to manifest)
 "C01-before-image-null-bitmap-size": ("C01", "Rows(): per-row NULL bitmap of the before image sized by Bitmap.Count() instead of BitCount()",
   "UPDATE/DELETE rows event with a PARTIAL before image on a table with >= 9 columns ((present+7)/8 != (columns+7)/8); CRC32 on for silent corruption"),
 "C01-varchar255-cellbytes-prefix": ("C01", "CellBytes VARCHAR: 2-byte length prefix chosen for metadata >= 255 instead of > 255 (cellLength unchanged)",
   "a VARCHAR/VARBINARY column whose maximum byte length is exactly 255 with a non-NULL value"),
 "C02-rollback-case-sensitive": ("C02", "parseEvents: ROLLBACK handled only when the SQL text is exactly upper-case \"ROLLBACK\"",
   "a transaction ended by a rollback query in lower or mixed case, followed by further units"),
 "C03-artificial-rotate-skipped": ("C03", "parseEvents: ROTATE events whose header log_pos is 0 (artificial rotate) are skipped",
   "a file switch announced only by the artificial ROTATE (server restart / crash), then a transaction in the new file"),
 "C04-rotate-offset-header-logpos": ("C04", "parseEvents: on ROTATE the kept offset is the rotate event's header log_pos (end of the old file) instead of the payload position",
   "a real rotation, a fault between the ROTATE and the first accepted transaction of the new file, then a restart"),
 "C05-cancel-holding-no-errchan-close": ("C05", "reader goroutine: the ctx.Done branch of the hand-off select returns without publishing / closing errChan",
   "cancellation while the reader holds an event the parser has not taken (next packet arrived while a slow handler runs), then Error()"),
 "C06-cause-published-after-close-select": ("C06", "reader goroutine: exit cause published after close(eventChan) through select{errChan<-cause; <-done}",
   "stream ended by ERR packet / lost connection; Stream returns and closes `done` between the reader's close(eventChan) and its publish; select picks <-done"),
 "C07-offset-int32": ("C07", "dump request offset computed through int32 and clamped to >= 4",
   "a resume offset >= 2^31"),
 "C07-zero-position-offset4": ("C07", "startDumpFromBinlogPosition: if pos.IsZero() the offset is forced to 4 (IsZero is true for an empty file name)",
   "a position with an empty binlog file name and an offset other than 4"),
 "C08-big-packet-no-copy": ("C08", "readBinlogEvent: packets larger than 4096 bytes are wrapped without copying (buf[1:])",
   "a packet > 4096 bytes with a byte-slice column, a handler that keeps the transaction, later packets reuse the driver buffer"),
 "C09-identify-null-bitmap-count": ("C09", "same source change as C01-before-image-null-bitmap-size, demonstrated on Rows() alone",
   "partial before image on a >= 9 column table"),
 "C10-identify-unsigned-index": ("C10", "getIdentifiesFromRow: signedness taken from Columns()[identifyIndex] instead of Columns()[c]",
   "partial before image whose present columns are not a prefix of the table, mixing signed and unsigned integer columns, value with the top bit set"),
 "C10-int24-signed-min": ("C10", "CellBytes INT24 rewritten as sign-extension with `val > 1<<23` instead of `>=`",
   "signed MEDIUMINT holding exactly -8388608"),
 "C11-zero-middle-group": ("C11", "DECIMAL integer part: the `digits already written` flag is reassigned after every 9-digit group",
   "precision-scale >= 10 and an aligned all-zero 9-digit group below a non-zero more significant digit"),
 "C12-time2-two-digit-hours": ("C12", "TIME2 formatted by a hand-rolled formatter that emits exactly two hour digits",
   "TIME(fsp) value with abs(hours) >= 100"),
 "C13-char255-prefix-len": ("C13", "cellLength STRING: 2-byte prefix for max >= 255 instead of > 255 (CellBytes unchanged)",
   "CHAR/BINARY column whose declared byte length is exactly 255"),
 "C14-large-uint32-as-int32": ("C14", "printJSONValueEntry: inlined uint32 in large containers printed through printJSONInt32",
   "large-format (>= 64 KB layout) object/array with an inlined UINT32 element > 2^31-1"),
 "C15-tablemap-reannounce-skipped": ("C15", "parseEvents: a TABLE_MAP for an already cached table id is skipped",
   "the same table id re-announced with different column types, then rows for that id"),
 "C16-legacy-catalog-nul": ("C16", "Query(): Q_CATALOG (legacy, NUL-terminated) advanced like Q_CATALOG_NZ (missing +1)",
   "status variables containing legacy Q_CATALOG (code 2) followed by Q_CHARSET_CODE"),
 "C17-isvalid-overlong": ("C17", "IsValid: length check relaxed from != to > (over-long buffers accepted)",
   "a packet longer than its length field says"),
 "C18-contains-interval-count": ("C18", "Mysql56GTIDSet.Contains: early `false` when the other set has more intervals for a SID",
   "a subset that is fragmented into more intervals than the superset has"),
 "C19-maria-contains-sorted-assumption": ("C19", "MariadbGTIDSet.ContainsGTID: domain lookup stops at the first entry with a domain >= the wanted one",
   "a set whose domains are not in ascending order and a query for a later, lower domain"),
 "C20-absent-nulls-data": ("C20", "ColumnData.MarshalJSON: absent columns (IsEmpty) rendered with data null even when data is present",
   "an absent-flagged column that carries data"),
 "C20-appendquote-escapes": ("C20", "ColumnData.MarshalJSON: data pre-quoted with strconv.AppendQuote into a json.RawMessage",
   "column data containing a control byte other than \\b\\t\\n\\f\\r, 0x7f or invalid UTF-8 (Go escapes are not JSON escapes): Marshal fails"),
 # ---- round b ----
 "C01-autocommit-only-after-xid": ("C01", "parseEvents: `autocommit = true` moved out of the shared commit closure into the XID branch only",
   "a transaction closed by a COMMIT (or ROLLBACK) query event followed directly by a standalone statement (DDL): it is buffered and later dropped"),
 "C02-rollback-keeps-autocommit-false": ("C02", "parseEvents: ROLLBACK delivers the empty transaction through a new closure that does not restore autocommit",
   "BEGIN..ROLLBACK followed, before the next BEGIN, by a unit logged outside a transaction"),
 "C03-tranpos-stale-after-rotate": ("C03", "parseEvents: start label taken from a `tranPos` refreshed only at BEGIN and at the end of commit (ROTATE updates only pos)",
   "a log rotation whose first following unit is autocommitted (no BEGIN)"),
 "C04-position-writeback-only-on-success": ("C04", "Stream: SetBinlogPosition(pos) moved below the error check (position stored only when parseEvents returns nil)",
   "an attempt that accepts >= 1 transaction and then ends with a handler / mapper / unsupported-event error, followed by another Stream call"),
 "C05-event-wraps-driver-buffer": ("C05", "readBinlogEvent: private copy of the packet payload dropped (event wraps the driver's reused buffer)",
   "a connection that reuses its read buffer and a reader that refills it while the parser or handler still holds the previous event: data race + changed event"),
 "C06-failure-swallowed-when-cancelled": ("C06", "Stream: returns nil when parseEvents failed and ctx.Err()==Canceled",
   "a handler / decode / lookup failure while the caller's context is already cancelled when parseEvents returns"),
 "C07-deferred-writeback-zero-pos": ("C07", "Stream: position write-back turned into a defer registered before startDumpFromBinlogPosition",
   "an attempt whose dump request (NoticeDump) fails, followed by another attempt: it requests file \"\" offset 0"),
 "C08-tranevents-reslice-shared": ("C08", "parseEvents: commit resets the buffer with tranEvents[:0] instead of nil",
   "a delivered transaction the handler still holds, followed by an autocommitted unit (DDL, rows outside BEGIN): Events[0] of the earlier transaction is overwritten"),
 "C09-bit-celllength-multiple-of-8": ("C09", "cellLength BIT: (nbits+7)/8 replaced by int(metadata>>8)+1",
   "a BIT column whose width is a multiple of 8 (metadata low byte 0)"),
 "C10-set-mask-uint32": ("C10", "CellBytes STRING/real type SET: bitmask accumulated in uint32",
   "a SET with more than 32 members and a value selecting members 33..64"),
 "C11-decimal-fixed-29-byte-buffer": ("C11", "DECIMAL scratch copy in a fixed 29-byte array",
   "(p,s) pairs whose binary form is 30 bytes (33 of the 1580 pairs, p = 64 or 65): slice bounds panic"),
 "C12-time2-fsp5-negative-frac": ("C12", "TIME2 fraction complement constants rewritten as shifts, 1<<16 instead of 1<<24 for metadata 5",
   "TIME(5) holding a negative value with a non-zero fraction"),
 "C13-defensive-copy-nil-empty": ("C13", "getValuesFromRow/getIdentifiesFromRow: column.Data = append([]byte(nil), column.Data...)",
   "a non-NULL zero-length string/binary value: delivered with Data == nil, like SQL NULL"),
 "C14-varlen-fastpath-0x80": ("C14", "readVariableLength: single-byte fast path guarded by <= 0x80 instead of < 0x80",
   "a JSON string whose byte length is a positive multiple of 128"),
 "C15-lenenc-fc-shift": ("C15", "readLenEncInt 0xfc case: uint64(data[pos+2]<<8) (byte shift yields 0)",
   "a column count or metadata block length >= 256"),
 "C16-fde-version-first-nul": ("C16", "Format(): server version cut at the first NUL found anywhere in the rest of the body",
   "a server version that fills the whole 50-byte field"),
 "C17-rotate-skip-before-gate": ("C17", "parseEvents: the pre-format `skip fake ROTATE` step hoisted above the validity gate (IsRotate() reads byte 4 first)",
   "a malformed packet as 1st/2nd packet of a dump that is shorter than 5 bytes or has byte 4 == 4"),
 "C18-addgtid-shared-backing": ("C18", "AddGTID: per-SID copy made only when inserting/merging; otherwise the original []interval is shared and appended to",
   "base set whose interval slice has cap > len (SID block decode / earlier merge), sequence beyond last.end+1, two AddGTID calls on the same base"),
 "C19-sidblock-signed-end": ("C19", "NewMysql56GTIDSetFromSIDBlock: reads into signed fields, drops intervals with end <= start before end--",
   "an interval that ends exactly at sequence 2^63-1"),
 "C20-empty-nonstring-null": ("C20", "ColumnData.MarshalJSON: data null also when len(Data)==0 and the type is not a string type",
   "a TEXT/BLOB/SET/BIT/GEOMETRY column with non-nil empty data"),
 # ---- round c ----
 "C01-v1-update-rows-not-recognised": ("C01", "IsUpdateRows: `typ == eUpdateRowsEventV2 || typ == eUpdateRowsEventV2` (v1 type 24 no longer recognised)",
   "a master that writes v1 row events and an UPDATE in the history: the update is dropped silently"),
 "C03-nextposition-int32": ("C03", "NextPosition(): int64(int32(Uint32(...)))",
   "a commit event whose header log_pos is >= 2^31"),
 "C04-handler-error-swallowed-on-cancel": ("C04", "parseEvents commit closure: a handler error is ignored when ctx.Err() != nil and pos advances",
   "the context is already cancelled when the handler rejects a transaction; then a restart on the same streamer"),
 "C05-conn-not-closed-when-prepare-fails": ("C05", "newSlaveConnection: s.dc assigned only after prepareForReplication succeeds, so close() skips dc.Close() on that failure",
   "connect succeeds, the SET @master_binlog_checksum statement fails: the connection is never closed"),
 "C06-error-text-suffix-classification": ("C06", "Error(): clean-end classification also by strings.HasSuffix(err.Error(), cause text)",
   "a master ERR packet whose message ends with exactly `context canceled` or `stream reached EOF`"),
 "C07-checksum-announced-once-per-streamer": ("C07", "prepareForReplication moved into Stream behind a per-streamer `checksumSet` flag",
   "a second or later Stream call on the same streamer: COM_BINLOG_DUMP without the SET before it"),
 "C08-zero-year-shared": ("C08", "CellBytes YEAR: zero value returned from a package-level ZeroYear slice",
   "two zero-YEAR cells and a handler that overwrites the delivered bytes in place"),
 "C09-mediumblob-prefix-4-byte-load": ("C09", "cellLength blob metadata 3: binary.LittleEndian.Uint32(data[pos:]) & 0xffffff (4-byte load)",
   "an empty non-NULL MEDIUMBLOB value that is the last cell of the last row image of the event: index out of range"),
 "C10-enum-index-signed": ("C10", "ENUM decoding delegated to CellBytes(TypeTiny/TypeShort) with the column's signedness flag",
   "ENUM member index >= 128 (1 byte) or >= 32768 (2 bytes) on a column not flagged unsigned"),
 "C11-writedigits9-zero-group": ("C11", "full 9-digit groups printed by a hand-written writeDigits9 whose digit count is 0 for value 0",
   "a padded full 9-digit group that is exactly 000000000 (integer part >= 10 digits or scale >= 9)"),
 "C12-datetime2-ym-16bit-mask": ("C12", "DATETIME2: ym := ymd >> 5 & 0xFFFF (the year*13+month field has 17 bits)",
   "DATETIME2 dates from 5041-03-01 up"),
 "C13-identify-null-bit-by-column-index": ("C13", "getIdentifiesFromRow: NullIdentifyColumns.Bit(c) instead of Bit(identifyIndex)",
   "partial before image with an absent column before a present one and a NULL among the present columns"),
 "C14-large-object-keylen-4-bytes": ("C14", "printJSONObject: key length read with the `large` flag (4 bytes) instead of always 2 bytes",
   "a JSON object in the large format with at least one member"),
 "C15-bit-metadata-byte-order": ("C15", "TypeBit moved to the big-endian metadata group in metadataLength/Read/Write (library encoder flips too)",
   "a TABLE_MAP written by a real master with a BIT(n) column, n not a multiple of 9"),
 "C16-autoincrement-statusvar-2-bytes": ("C16", "Query(): Q_AUTO_INCREMENT advances 2 bytes instead of 4",
   "a query event with Q_AUTO_INCREMENT (code 3) before Q_CHARSET_CODE"),
 "C17-isvalid-min-13-bytes": ("C17", "IsValid: minimum length 13 and the `evLen < 19` half dropped",
   "a packet of 13..18 bytes whose uint32 at offset 9 equals its own length"),
 "C18-addgtid-merge-skipped-at-index0": ("C18", "AddGTID merge-with-previous: `last := len-1; last > 0` (skips the merge when the previous interval is at index 0)",
   "a SID whose first two intervals are separated by exactly one missing sequence number, then AddGTID of that number"),
 "C19-parse-coalesce-gap-of-one": ("C19", "parseMysql56GTIDSet coalesces intervals with start == prev.end+2",
   "a set with two intervals exactly one sequence number apart (uuid:1-5:7-9): text round trip returns uuid:1-9"),
 "C20-handmade-events-array-empty": ("C20", "Transaction.MarshalJSON appends the events by hand and overwrites the last byte with ']'",
   "a transaction with zero events: `\"events\":]}` (malformed JSON, nil error)"),
 "C02-autocommit-dml-not-delivered": ("C02", "parseEvents: the `if autocommit { commit(ev) }` of statement-format INSERT/UPDATE/DELETE removed as dead code",
   "a statement-format DML query event outside BEGIN..COMMIT: merged into the next unit or dropped by the next BEGIN"),
 # ---- round d ----
 "C01-strip-checksum-before-format": ("C01", "parseEvents: StripChecksum moved before the format-description check",
   "CRC32 checksums and a second format-description event in one dump (rotation), then at least one more event"),
 "C02-ddl-commits-open-transaction": ("C02", "parseEvents DDL branch: `if autocommit || typ.IsDDL()`",
   "a DDL query event while a transaction is open (e.g. CREATE TEMPORARY TABLE after BEGIN)"),
 "C03-empty-transaction-not-delivered": ("C03", "commit closure: the handler is skipped for transactions without events while pos still advances",
   "BEGIN..ROLLBACK followed by another transaction: the label chain has a hole"),
 "C04-unsupported-event-advances-offset": ("C04", "RAND / INTVAR / ROWS_QUERY branches set pos.Offset = ev.NextPosition() before returning the error",
   "such an event inside a transaction, then a restart on the same streamer"),
 "C05-close-error-skips-done": ("C05", "close(): returns early (before close(s.done)) when dc.Close() reports an error",
   "reader parked holding the next packet, parser stops on a handler error, and Close() fails because the master already dropped the connection"),
 "C07-rotate-only-to-greater-filename": ("C07", "ROTATE updates the position only if the new file name is lexicographically greater",
   "index rollover mysql-bin.999999 -> mysql-bin.1000000 / RESET MASTER, then a resume attempt"),
 "C08-update-after-reuses-before-slice": ("C08", "appendUpdateEventFromRows: an after-image column equal to its before-image column reuses that slice",
   "an UPDATE with an unchanged non-empty column and a handler that overwrites one image's bytes"),
 "C09-last-all-null-row-dropped": ("C09", "Rows(): loop guard `pos+minRowLength < len(data)` (should be <=)",
   "the last row of an event has every present column NULL in all its images"),
 "C10-bit-metadata-read-swapped": ("C10", "metadataRead: TypeBit moved to the big-endian 2-byte case",
   "a BIT(n) column parsed through the library's table-map parser, n not in {1,8,9,18,...}"),
 "C11-negative-zero-integer-part": ("C11", "DECIMAL: the single `0` for an empty integer part is written only if the buffer is empty (`-` already there)",
   "a negative DECIMAL with -1 < v < 0: `-.50`"),
 "C12-timestamp-fixed-zone-at-start": ("C12", "printTimestamp renders In(FixedZone(time.Now().Zone())) captured at process start instead of Local()",
   "a DST zone and an instant whose offset differs from the one at process start"),
 "C13-mediumblob-third-prefix-byte-shift": ("C13", "CellBytes blob with 3 length bytes: third byte shifted << 8",
   "a MEDIUMBLOB value of 65536 bytes or more"),
 "C14-json-fraction-no-zero-padding": ("C14", "opaque TIME/DATETIME in JSON: microseconds printed with strconv.AppendUint (no %06d padding)",
   "an opaque TIME/DATETIME whose microsecond part is 1..99999"),
 "C15-identify-names-by-present-index": ("C15", "getIdentifiesFromRow: column NAME looked up by the index among present columns",
   "partial before image with an omitted column followed by a present one"),
 "C16-format-rejects-undef-checksum": ("C16", "Format(): rejects checksum algorithm bytes > CRC32 (including 255 = undefined)",
   "a format description announcing checksum algorithm 255"),
 "C17-gate-failure-returns-event-pos": ("C17", "parseEvents: the gate-failure branch returns a per-event position tracker instead of pos",
   "a malformed packet inside an open transaction (after BEGIN / TABLE_MAP / rows)"),
 "C18-equal-prefix-intervals": ("C18", "Equal: interval-count check replaced by a bounds guard inside the loop over the receiver's intervals",
   "the other set has the receiver's intervals as a prefix plus extra trailing intervals"),
 "C19-maria-sequence-parsed-32bit": ("C19", "parseMariadbGTID: sequence parsed with bit size 32",
   "a MariaDB GTID with sequence >= 2^32 through text"),
 "C20-event-shape-by-row-count": ("C20", "StreamEvent.MarshalJSON: query-vs-rows shape decided by `no row images` instead of `SQL != \"\"`",
   "a rows event with zero rows (rendered as a query event), or an event with both SQL and rows"),
 "C06-errno-1053-as-eof": ("C06", "readBinlogEvent: an ERR packet decoded to *mysql.MySQLError with Number 1053 is turned into the EOF sentinel",
   "the master ends the dump with an ERR packet whose errno is exactly 1053 (any message) on a connection that produces the driver's error type"),
 # ---- round e ----
 "C01-later-format-descriptions-ignored": ("C01", "parseEvents: every FORMAT_DESCRIPTION after the first is skipped",
   "a dump that crosses a rotation into a file whose format description differs (checksum algorithm switched)"),
 "C02-category-prefix-cut-to-8": ("C02", "GetStatementCategory: SQL cut to 8 bytes before the first-word lookup (the bound should be 9)",
   "an unknown statement whose first word is longer than 8 bytes and starts with `rollback` or `truncate`, inside an open transaction"),
 "C03-pos-read-back-from-transaction": ("C03", "commit closure: pos is read back from the *Transaction handed to the handler",
   "a handler that modifies / recycles the delivered Transaction (e.g. *tran = Transaction{}) before the parser reads NextPosition back"),
 "C04-deferred-writeback-zero-pos": ("C04", "Stream: position write-back as a defer registered before startDumpFromBinlogPosition",
   "an attempt whose dump request fails, followed by another attempt (same source change as C07-deferred-writeback-zero-pos)"),
 "C05-close-nils-dc": ("C05", "close(): s.dc = nil after dc.Close()",
   "an ERR packet already received (or an event just handed off) when close() runs: the reader calls a method on the nil connection; data race on s.dc"),
 "C06-stop-event-masks-later-errors": ("C06", "reader: after a STOP_EVENT has passed, any later read failure is replaced by the EOF sentinel",
   "a dump that contains a STOP_EVENT, continues, and later ends with a lost connection or a master ERR packet"),
 "C07-writeback-only-on-success": ("C07", "Stream: SetBinlogPosition(pos) only after the error check (same idea as C04-position-writeback-only-on-success)",
   "an attempt that accepts a transaction and then fails in parseEvents, followed by another Stream call"),
 "C08-shared-absent-column-placeholder": ("C08", "tableCache keeps one *ColumnData placeholder per absent column and hands it out in every row / event / transaction",
   "partial row images with the same absent column occurring twice and a handler that writes to the column it received"),
 "C09-bitcount-bytewise-popcount": ("C09", "Bitmap.BitCount counts set bits byte-wise, including the unused bits of the last byte",
   "column count not a multiple of 8, padding bits of the presence bitmap set to 1, and a partial row image"),
 "C10-float-integer-fast-path-negzero": ("C10", "FLOAT/DOUBLE: integral values printed through strconv.AppendInt(int64(f))",
   "a cell whose bits are exactly negative zero: decodes to \"0\", which parses back to +0"),
 "C11-fraction-leftover-by-remaining-bytes": ("C11", "DECIMAL fraction: full-group loop bounded by `pos+4 <= l`, leftover keyed by the remaining bytes",
   "scale % 9 in {7, 8}: the 4-byte leftover group is printed as a full 9-digit group"),
 "C12-zero-timestamp2-drops-fraction": ("C12", "TIMESTAMP2: early return of the zero text for second == 0, skipping the fractional digits",
   "a zero TIMESTAMP(fsp) with fsp 1..6"),
 "C13-char-prefix-by-metadata-bits": ("C13", "CellBytes CHAR/BINARY: 2-byte prefix chosen by `metadata&0x3000 == 0` instead of max > 255",
   "a CHAR/BINARY column whose declared maximum is 256..767 bytes"),
 "C14-large-offsets-read-as-small": ("C14", "printJSONValueEntry: out-of-line value offsets always read as 2 bytes",
   "a large-format container with an out-of-line value at offset >= 65536"),
 "C15-metadata-length-one-byte": ("C15", "TableMap(): the metadata block length read as a single byte instead of a length-encoded integer",
   "a table whose metadata block is 251 bytes or longer (126+ VARCHAR columns)"),
 "C16-dblen-byte-wraparound": ("C16", "Query(): SQL offset computed as dbPos + int(dbLen+1) in 8-bit arithmetic",
   "a query event whose database name is exactly 255 bytes long"),
 "C17-empty-event-skipped-before-gate": ("C17", "parseEvents: `if len(ev.Bytes()) == 0 { continue }` above the validity gate",
   "an event truncated to length 0 inside an open transaction"),
 "C18-contains-empty-fastpath": ("C18", "Contains: `if len(set) == 0 { return false }`",
   "both sets empty: {}.Contains({}) must be true"),
 "C19-gtid-event-gno-uint32": ("C19", "mysql56BinlogEvent.GTID(): sequence number read with Uint32",
   "a GTID event whose sequence number is >= 2^32"),
 "C20-marshal-pooled-buffer": ("C20", "Transaction.MarshalJSON encodes into a sync.Pool buffer and returns a slice into it",
   "MarshalJSON called directly, the result kept, and another transaction marshalled before it is consumed"),
 # ---- round f (focused on C04-C08: interleavings, multi-step sequences, cooperating sites) ----
 "C04-store-only-if-position-after": ("C04", "Stream stores the returned position only if Position.after() (file name compared as a string, then the offset)",
   "an attempt that crosses a rotation to a file name that sorts lower and accepts transactions there; then another attempt"),
 "C04-commit-error-shadowed": ("C04", "commit closure leaves the handler error in a function-level err that the query / rows branches shadow",
   "a handler error on a transaction closed by a QUERY event (DDL, COMMIT query, autocommitted rows), followed by an accepted transaction"),
 "C05-done-signalled-not-closed": ("C05", "close(): non-blocking send on the unbuffered done channel instead of close(done)",
   "parser stops by itself while the reader is between ReadPacket and its hand-off select and still obtains a packet: the signal is lost, the reader parks forever"),
 "C05-done-nonblocking-send-no-once": ("C05", "close(): sync.Once + close(done) replaced by a non-blocking send on done",
   "close() runs while the reader is running (inside a ReadPacket that still returns a packet, or between the read and the hand-off select)"),
 "C05-waitgroup-add-before-failed-dump": ("C05", "close() waits on a WaitGroup whose Add(1) happens before the dump request and whose Done() only in the reader goroutine",
   "the dump request fails: nothing ever calls Done(), Stream's deferred close() blocks forever"),
 "C06-parse-error-dropped-if-cause-published": ("C06", "Stream returns nil for a parser error when len(conn.errChan) != 0",
   "the failing transaction is the last one before the dump ends and the reader publishes its exit cause while the handler is still running"),
 "C06-sticky-canceled-flag": ("C06", "a Streamer-level `canceled` flag set in parseEvents on ctx.Done and never reset; Error() returns nil when it is set",
   "attempt N cancelled by the caller, attempt N+1 on a fresh context ends by a master ERR / lost connection"),
 "C07-pos-from-handler-owned-transaction": ("C07", "commit closure advances with pos = tran.NextPosition read back from the delivered *Transaction",
   "a handler that edits tran.NextPosition before returning, then a second Stream call: the dump request carries the altered position"),
 "C08-recycled-event-buffer-autocommit-rows": ("C08", "a one-slot free list of event buffers: commit() recycles the commit event's buffer, readBinlogEvent refills it",
   "an autocommitted rows event (the rows event itself is the commit event) whose values the handler keeps, followed by a packet that fits the recycled buffer"),
 "C08-zero-copy-sql-alternating-buffers": ("C08", "Query(): SQL as a zero-copy unsafe string; readBinlogEvent: QUERY/XID/GTID events in two alternating per-connection buffers",
   "a kept transaction with a statement event, then two more QUERY/GTID events: the SQL text changes after delivery"),
}

def parse_detect(path):
    res = {}
    if not os.path.exists(path):
        return res
    cur = None
    for line in open(path):
        m = re.match(r'check (C\d\d) exit=(\d+) (\d+)s', line)
        if m:
            cur = m.group(1)
            res[cur] = {"exit": int(m.group(2)), "seconds": int(m.group(3)), "violations": 0, "first": ""}
        elif line.startswith("VIOLATION") and cur:
            res[cur]["violations"] += 1
        elif line.startswith("  root=") and cur and not res[cur]["first"]:
            res[cur]["first"] = line.strip()[:300]
    return res

rows = []
for sid, (prop, what, needs) in sorted(SEEDS.items()):
    d = os.path.join(here, "seeded", sid)
    if not os.path.isdir(d):
        continue
    det = parse_detect(os.path.join(d, "detect.log"))
    conf = open(os.path.join(d, "confirm.log"), errors="replace").read() if os.path.exists(os.path.join(d, "confirm.log")) else ""
    demo_files = []
    for root, _, files in os.walk(os.path.join(d, "demo")):
        for f in files:
            demo_files.append(os.path.relpath(os.path.join(root, f), os.path.join(d, "demo")))
    parts = conf.split("## ")
    def part(title):
        for p in parts:
            if p.startswith(title):
                return p
        return ""
    existing_ok = "FAIL" not in part("existing tests") and "ok" in part("existing tests")
    demo_fails = "FAIL" in part("demo with the change")
    demo_passes = "FAIL" not in part("demo without the change") and "ok" in part("demo without the change")
    caught = sorted(p for p, r in det.items() if r["exit"] == 1 and r["violations"] > 0)
    missed = sorted(p for p, r in det.items() if not (r["exit"] == 1 and r["violations"] > 0))
    meta = {
        "id": sid, "property": prop, "change": what, "needs_to_manifest": needs,
        "demo": demo_files,
        "confirmed": {"existing_tests_pass_with_change": existing_ok, "demo_fails_with_change": demo_fails, "demo_passes_without_change": demo_passes},
        "what_was_run": ["tools/seed_eval.sh <scratch worktree> %s %s  (go build ./... ; go test -vet=off -count=1 ./... with the demo moved aside; go test -run TestDemo with and without patch.diff; then `gosym check -prop P -tier quick -noevidence` with VERIF_REPO=<worktree with the patch applied>)" % (sid, prop)],
        "checks_run": sorted(det),
        "caught_by": caught, "not_caught_by": missed,
        "first_counterexample": {p: det[p]["first"] for p in caught},
    }
    json.dump(meta, open(os.path.join(d, "meta.json"), "w"), indent=1)
    rows.append((sid, prop, needs, caught, missed, existing_ok and demo_fails and demo_passes))
print("| seeded change | breaks | needs | caught by (quick) | run but silent | confirmed |")
print("|---|---|---|---|---|---|")
for sid, prop, needs, caught, missed, ok in rows:
    print("| %s | %s | %s | %s | %s | %s |" % (sid, prop, needs, ", ".join(caught) or "—", ", ".join(missed) or "—", "yes" if ok else "NO"))
