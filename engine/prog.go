package main

// Loading /repo (+ harness overlay) into go/ssa, and shared program-level data.

import (
	"fmt"
	"go/types"
	"os"
	"path/filepath"
	"sort"
	"strings"
	"sync"

	"golang.org/x/tools/go/packages"
	"golang.org/x/tools/go/ssa"
	"golang.org/x/tools/go/ssa/ssautil"
)

const repoModule = "github.com/Breeze0806/gobinlog"

type intrinsicFn func(e *Exec, caller *Frame, fn *ssa.Function, args []Value) Value

type Prog struct {
	prog           *ssa.Program
	pkgs           map[string]*ssa.Package
	errorType      types.Type
	errorStringPtr types.Type
	vidx           sync.Map // *ssa.Function -> map[ssa.Value]int
	intr           sync.Map // *ssa.Function -> intrinsicFn (nil func = miss)
	harnessFn      sync.Map // *ssa.Function -> bool
	mapOrders      bool
	overlay        map[string][]byte
	harnessFiles   []string
	repoDir        string
}

func (p *Prog) isRepoPkg(pkg *ssa.Package) bool {
	if pkg == nil || pkg.Pkg == nil {
		return false
	}
	return strings.HasPrefix(pkg.Pkg.Path(), repoModule) || pkg.Pkg.Path() == "command-line-arguments"
}

func (p *Prog) isNoopIface(t types.Type) bool {
	return isNamedType(t, "github.com/Breeze0806/go/log", "Logger")
}

// harnessOverlay maps /verif/harness/<pkg>/zz_verif_*.go into /repo[/<pkg>].
func harnessOverlay(repoDir, harnessDir string) (map[string][]byte, []string, error) {
	ov := map[string][]byte{}
	var files []string
	for _, sub := range []struct{ h, r string }{{"gobinlog", ""}, {"replication", "replication"}} {
		dir := filepath.Join(harnessDir, sub.h)
		ents, err := os.ReadDir(dir)
		if err != nil {
			continue
		}
		for _, ent := range ents {
			if !strings.HasSuffix(ent.Name(), ".go") || strings.HasSuffix(ent.Name(), "_test.go") {
				continue
			}
			data, err := os.ReadFile(filepath.Join(dir, ent.Name()))
			if err != nil {
				return nil, nil, err
			}
			dst := filepath.Join(repoDir, sub.r, ent.Name())
			ov[dst] = data
			files = append(files, dst)
		}
	}
	sort.Strings(files)
	return ov, files, nil
}

func LoadProg(repoDir, harnessDir string) (*Prog, error) {
	ov, files, err := harnessOverlay(repoDir, harnessDir)
	if err != nil {
		return nil, err
	}
	cfg := &packages.Config{
		Mode:       packages.LoadAllSyntax,
		Dir:        repoDir,
		Tests:      false,
		BuildFlags: []string{"-tags=verif"},
		Overlay:    ov,
		Env:        append(os.Environ(), "GOFLAGS=-mod=mod", "GOPROXY=off", "GOSUMDB=off", "GOTOOLCHAIN=local"),
	}
	pkgs, err := packages.Load(cfg, ".", "./replication")
	if err != nil {
		return nil, err
	}
	var errs []string
	packages.Visit(pkgs, nil, func(p *packages.Package) {
		for _, e := range p.Errors {
			errs = append(errs, e.Error())
		}
	})
	if len(errs) > 0 {
		return nil, fmt.Errorf("package load errors:\n%s", strings.Join(errs, "\n"))
	}
	prog, spkgs := ssautil.AllPackages(pkgs, ssa.InstantiateGenerics)
	prog.Build()
	p := &Prog{prog: prog, pkgs: map[string]*ssa.Package{},
		overlay: ov, harnessFiles: files, repoDir: repoDir}
	for _, sp := range spkgs {
		if sp != nil {
			p.pkgs[sp.Pkg.Path()] = sp
		}
	}
	for _, sp := range prog.AllPackages() {
		p.pkgs[sp.Pkg.Path()] = sp
	}
	p.errorType = types.Universe.Lookup("error").Type()
	if ep := p.pkgs["errors"]; ep != nil {
		if es := ep.Type("errorString"); es != nil {
			p.errorStringPtr = types.NewPointer(es.Type())
		}
	}
	if p.errorStringPtr == nil {
		return nil, fmt.Errorf("errors.errorString not found")
	}
	return p, nil
}

// valueIndex numbers the SSA values of a function (parameters, free variables,
// locals and value-producing instructions) so that frames can use a slice.
func (p *Prog) valueIndex(fn *ssa.Function) map[ssa.Value]int {
	if m, ok := p.vidx.Load(fn); ok {
		return m.(map[ssa.Value]int)
	}
	m := map[ssa.Value]int{}
	add := func(v ssa.Value) {
		if _, ok := m[v]; !ok {
			m[v] = len(m)
		}
	}
	for _, x := range fn.Params {
		add(x)
	}
	for _, x := range fn.FreeVars {
		add(x)
	}
	for _, x := range fn.Locals {
		add(x)
	}
	for _, b := range fn.Blocks {
		for _, ins := range b.Instrs {
			if v, ok := ins.(ssa.Value); ok {
				add(v)
			}
		}
	}
	p.vidx.Store(fn, m)
	return m
}

func (p *Prog) harnessFunc(name string) *ssa.Function {
	for _, path := range []string{repoModule, repoModule + "/replication"} {
		if sp := p.pkgs[path]; sp != nil {
			if f := sp.Func(name); f != nil {
				return f
			}
		}
	}
	return nil
}

// isHarnessFn: the function is defined in an injected harness file (zz_verif_*.go).
func (p *Prog) isHarnessFn(fn *ssa.Function) bool {
	f := fn
	for f.Parent() != nil {
		f = f.Parent()
	}
	if !f.Pos().IsValid() {
		return false
	}
	if strings.HasPrefix(f.Name(), "vhDrv") {
		return false // stands in for driver code executed by the library's goroutine
	}
	return strings.HasPrefix(filepath.Base(p.prog.Fset.Position(f.Pos()).Filename), "zz_verif_")
}

func (p *Prog) isHarnessFnCached(fn *ssa.Function) bool {
	if v, ok := p.harnessFn.Load(fn); ok {
		return v.(bool)
	}
	r := p.isHarnessFn(fn)
	p.harnessFn.Store(fn, r)
	return r
}

func (p *Prog) intrinsic(fn *ssa.Function) intrinsicFn {
	if h, ok := p.intr.Load(fn); ok {
		return h.(intrinsicFn)
	}
	h := p.findIntrinsic(fn)
	p.intr.Store(fn, h)
	return h
}

func (p *Prog) findIntrinsic(fn *ssa.Function) intrinsicFn {
	name := fn.String()
	if o := fn.Origin(); o != nil {
		name = o.String()
	}
	if fn.Pkg != nil && p.isRepoPkg(fn.Pkg) && fn.Parent() == nil && fn.Signature.Recv() == nil {
		if strings.HasPrefix(fn.Name(), "vh") {
			if h, ok := vhIntrinsics[fn.Name()]; ok {
				return h
			}
		}
	}
	if h, ok := intrinsics[name]; ok {
		return h
	}
	if fn.Pkg != nil {
		path := fn.Pkg.Pkg.Path()
		if path == "github.com/Breeze0806/go/log" {
			return intrNoop
		}
		if fn.Name() == "init" && fn.Signature.Recv() == nil && fn.Parent() == nil && !p.isRepoPkg(fn.Pkg) {
			return intrNoop
		}
	}
	return nil
}

func intrNoop(e *Exec, caller *Frame, fn *ssa.Function, args []Value) Value {
	res := fn.Signature.Results()
	switch res.Len() {
	case 0:
		return nil
	case 1:
		return e.zero(res.At(0).Type())
	}
	return e.zero(res)
}
