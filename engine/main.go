package main

import (
	"encoding/json"
	"flag"
	"fmt"
	"math/rand"
	"os"
	"path/filepath"
	"runtime"
	"runtime/debug"
	"runtime/pprof"
	"sort"
	"strconv"
	"strings"
	"time"
)

var verifDir = "/verif"
var repoDir = "/repo"

func main() {
	debug.SetGCPercent(800)
	if len(os.Args) < 2 {
		fmt.Fprintln(os.Stderr, "usage: gosym check|replay|list ...")
		os.Exit(2)
	}
	if d := os.Getenv("VERIF_DIR"); d != "" {
		verifDir = d
	}
	if d := os.Getenv("VERIF_REPO"); d != "" {
		repoDir = d
	}
	switch os.Args[1] {
	case "check":
		os.Exit(cmdCheck(os.Args[2:]))
	case "replay":
		os.Exit(cmdReplay(os.Args[2:]))
	case "list":
		for _, p := range allProps() {
			for _, tier := range []string{"quick", "thorough"} {
				rs := rootsFor(p, tier)
				fmt.Printf("%s %s: %d roots\n", p, tier, len(rs))
			}
		}
	default:
		fmt.Fprintln(os.Stderr, "unknown command", os.Args[1])
		os.Exit(2)
	}
}

type sampleT struct {
	Root    string   `json:"root"`
	Kind    string   `json:"kind"`
	Nondet  []uint64 `json:"nondet_inputs,omitempty"`
	Chooses []int64  `json:"structure_choices,omitempty"`
	Decs    string   `json:"decisions,omitempty"`
	Note    string   `json:"note,omitempty"`
}

func cmdCheck(args []string) int {
	fs := flag.NewFlagSet("check", flag.ExitOnError)
	prop := fs.String("prop", "", "property id")
	tier := fs.String("tier", os.Getenv("VERIF_TIER"), "quick|thorough")
	defW := runtime.NumCPU()
	if w, err := strconv.Atoi(os.Getenv("GOSYM_WORKERS")); err == nil && w > 0 {
		defW = w
	}
	workers := fs.Int("workers", defW, "parallel workers")
	verbose := fs.Bool("v", false, "verbose")
	rootFilter := fs.String("root", "", "only roots whose key contains this")
	solver := fs.String("solver", "z3", "primary solver")
	noReplay := fs.Bool("noreplay", false, "skip native replay (debug only; never registered)")
	timeout := fs.Int("timeout", 0, "per-query timeout ms")
	budget := fs.Int("budget", 0, "wall-clock budget in seconds for exploration")
	noEvidence := fs.Bool("noevidence", false, "do not write the evidence file")
	cpuprof := fs.String("cpuprofile", "", "write cpu profile")
	fs.Parse(args)
	if *cpuprof != "" {
		pf, _ := os.Create(*cpuprof)
		pprof.StartCPUProfile(pf)
		defer pprof.StopCPUProfile()
	}
	if *tier == "" {
		*tier = "quick"
	}
	if *prop == "" {
		fmt.Fprintln(os.Stderr, "need -prop")
		return 2
	}
	seed := int64(0)
	if s := os.Getenv("VERIF_SEED"); s != "" {
		seed, _ = strconv.ParseInt(s, 10, 64)
	}
	start := time.Now()
	roots := rootsFor(*prop, *tier)
	if *rootFilter != "" {
		var rs []Root
		for _, r := range roots {
			if strings.Contains(r.Key(), *rootFilter) {
				rs = append(rs, r)
			}
		}
		roots = rs
	}
	if len(roots) == 0 {
		fmt.Fprintf(os.Stderr, "no roots for %s/%s\n", *prop, *tier)
		return 2
	}
	if seed != 0 {
		rng := rand.New(rand.NewSource(seed))
		rng.Shuffle(len(roots), func(i, j int) { roots[i], roots[j] = roots[j], roots[i] })
	}
	genDir, err := os.MkdirTemp("", "gosym-gen-")
	if err != nil {
		fmt.Fprintln(os.Stderr, err)
		return 2
	}
	defer os.RemoveAll(genDir)
	hdir, err := prepareHarnessDir(genDir)
	if err != nil {
		fmt.Fprintln(os.Stderr, "harness preparation failed:", err)
		return 2
	}
	tLoad := time.Now()
	P, err := LoadProg(repoDir, hdir)
	if err != nil {
		fmt.Fprintln(os.Stderr, "load failed:", err)
		fmt.Printf("INCONCLUSIVE property=%s cannot load /repo with harness overlay\n", *prop)
		return 2
	}
	loadS := time.Since(tLoad).Seconds()
	P.mapOrders = true
	startMemWatchdog()
	to := *timeout
	if to == 0 {
		to = 20000
		if *tier == "thorough" {
			to = 120000
		}
	}
	x := &Explorer{P: P, roots: roots, workers: *workers, solverKind: *solver, timeoutMs: to, verbose: *verbose,
		maxWitnessPerRoot: 2, stopOnFail: true}
	if *tier == "thorough" {
		x.crossRate = 8
	}
	if v, err := strconv.Atoi(os.Getenv("GOSYM_CROSS")); err == nil {
		x.crossRate = v
	}
	if *budget == 0 {
		// default exploration budgets; exhausting one is reported as INCONCLUSIVE, never as success
		*budget = 1500
		if *tier == "thorough" {
			*budget = 6 * 3600
		}
	}
	x.deadline = time.Now().Add(time.Duration(*budget) * time.Second)
	x.Run()
	// Counterexamples that depend on the schedule: look for a variant that the native replay can
	// stage (library-priority schedules, see sched.go pick) by re-exploring the failing roots.
	var lpResults []*RootResult
	{
		var lpRoots []Root
		for _, rr := range x.results {
			for _, f := range rr.Failures {
				if hasSched(f.Decs) && f.Kind != "race" {
					r := rr.Root
					r.LibPrio = true
					lpRoots = append(lpRoots, r)
					break
				}
			}
		}
		if len(lpRoots) > 0 {
			x2 := &Explorer{P: P, roots: lpRoots, workers: *workers, solverKind: *solver, timeoutMs: to, verbose: *verbose, stopOnFail: true}
			x2.deadline = time.Now().Add(120 * time.Second)
			x2.Run()
			lpResults = x2.results
			if *verbose {
				for _, lr := range lpResults {
					fmt.Printf("  lib-priority re-exploration %s: paths=%d failures=%d inconclusive=%v\n", lr.Root.Key(), lr.Paths, len(lr.Failures), lr.Inconclusive)
				}
			}
			x.stats.Sat += x2.stats.Sat
			x.stats.Unsat += x2.stats.Unsat
			x.stats.Unknown += x2.stats.Unknown
			x.stats.Time += x2.stats.Time
		}
	}
	exploreS := time.Since(start).Seconds()

	// ---- collect ----
	type cexT struct {
		rr  *RootResult
		f   *Failure
		key string
	}
	var cexs []cexT
	var inconcl []string
	paths, decisions, asserts, folded, infeasible, steps := 0, 0, 0, 0, 0, 0
	raceChecks, crossChecked, crossDisagree := 0, 0, 0
	funcs := map[string]bool{}
	var samples []sampleT
	var tapes []*Tape
	tapeRoot := map[string]*RootResult{}
	vacuous := 0
	for _, rr := range x.results {
		paths += rr.Paths
		decisions += rr.Decisions
		asserts += rr.Asserts
		folded += rr.AssertsFold
		infeasible += rr.Infeasible
		steps += rr.Steps
		raceChecks += rr.RaceChecks
		crossChecked += rr.CrossChecked
		crossDisagree += rr.CrossDisagree
		for f := range rr.Funcs {
			funcs[f] = true
		}
		for _, s := range rr.Inconclusive {
			inconcl = appendUniq(inconcl, rr.Root.Key()+": "+s)
		}
		if rr.Paths-rr.Infeasible-len(rr.Failures) <= 0 && len(rr.Failures) == 0 {
			vacuous++
			inconcl = appendUniq(inconcl, rr.Root.Key()+": vacuous (no feasible completed path)")
		}
		seen := map[string]bool{}
		nsched := 0
		for _, f := range rr.Failures {
			k := f.Kind + "|" + f.Msg + "|" + siteNoFn(f.Site)
			if hasSched(f.Decs) && f.Kind != "race" {
				// interleavings differ in whether they can be staged natively: keep up to 10 per root
				k += "|" + traceSig(f.STrace)
				if !seen[k] {
					nsched++
				}
				if nsched > 6 {
					continue
				}
			}
			if seen[k] {
				continue
			}
			seen[k] = true
			cexs = append(cexs, cexT{rr, f, k})
		}
		for i, w := range rr.Witnesses {
			id := fmt.Sprintf("%s#w%d", rr.Root.Key(), i)
			tapes = append(tapes, &Tape{ID: id, Harness: rr.Root.Harness, Params: rr.Root.Params, Nondet: w.Nondet, Chooses: w.Chooses, Expect: "ok", obs: w.Observes, Sched: hasSched(w.Decs)})
			tapeRoot[id] = rr
			if len(samples) < 6 {
				samples = append(samples, sampleT{Root: rr.Root.Key(), Kind: "witness of a completed path (all obligations on it discharged)", Nondet: trunc(w.Nondet, 48), Chooses: w.Chooses, Decs: decString(w.Decs)})
			}
		}
	}
	for _, rr := range x.results {
		for i, w := range rr.Probes {
			id := fmt.Sprintf("%s#p%d", rr.Root.Key(), i)
			tapes = append(tapes, &Tape{ID: id, Harness: rr.Root.Harness, Params: rr.Root.Params, Nondet: w.Nondet, Chooses: w.Chooses, Expect: "probe", bound: w.Bound})
			tapeRoot[id] = rr
		}
	}
	for _, lr := range lpResults {
		var orig *RootResult
		for _, rr := range x.results {
			if rr.Root.Key() == lr.Root.Key() {
				orig = rr
			}
		}
		seen := map[string]bool{}
		for _, f := range lr.Failures {
			k := "lp|" + f.Kind + "|" + f.Msg + "|" + siteNoFn(f.Site)
			if seen[k] || orig == nil {
				continue
			}
			seen[k] = true
			cexs = append(cexs, cexT{orig, f, k})
		}
	}
	for i, c := range cexs {
		id := fmt.Sprintf("%s#cex%d", c.rr.Root.Key(), i)
		tp := &Tape{ID: id, Harness: c.rr.Root.Harness, Params: c.rr.Root.Params, Nondet: c.f.Nondet, Chooses: c.f.Chooses, Expect: "fail", failure: c.f, Sched: hasSched(c.f.Decs)}
		if c.f.LibPrio {
			tp.Env = c.f.Env
		} else if tp.Sched && c.f.Kind != "race" && len(c.f.STrace) > 0 && len(c.f.STrace) < 4000 {
			// the engine's own schedule, staged natively at the library's visible operations
			// (instrumented copy of the library sources, see native.go)
			tp.STrace = c.f.STrace
		}
		tp.Race = c.f.Kind == "race"
		tapes = append(tapes, tp)
		tapeRoot[id] = c.rr
	}

	// ---- native replay ----
	validated, mismatches := 0, 0
	var mismatchNotes []string
	type nativeCexT struct {
		tp   *Tape
		what string
	}
	var nativeCex []nativeCexT
	replayS := 0.0
	reproduced := map[string]bool{}
	var unrepro []*Tape
	if !*noReplay && len(tapes) > 0 {
		t0 := time.Now()
		results, err := runNative(genDir, hdir, tapes)
		replayS = time.Since(t0).Seconds()
		if err != nil {
			inconcl = append(inconcl, "native replay failed: "+err.Error())
		} else {
			for _, tp := range tapes {
				r := results[tp.ID]
				if r == nil {
					mismatches++
					mismatchNotes = appendUniq(mismatchNotes, tp.ID+": no native result")
					continue
				}
				if tp.Expect == "probe" {
					// model of a path the engine gave up on: only a native failure that honours the
					// assumptions counts (a reproduced violation); anything else says nothing
					if !r.AssumeFail && r.Skipped == "" && (len(r.Fails) > 0 || r.Panic != "") {
						what := r.Panic
						if len(r.Fails) > 0 {
							what = r.Fails[0]
						}
						nativeCex = append(nativeCex, nativeCexT{tp, what})
					} else if tp.bound && r.Deadlock && !rr0(tapeRoot[tp.ID]).Root.LibPrio && !hasSchedRoot(tapeRoot[tp.ID]) {
						// the engine ran into its step bound on this path AND the real code, run natively on the
						// same input, does not return within the replay's time limit: it does not terminate
						// (or not in any useful time) where the harness expects an answer
						nativeCex = append(nativeCex, nativeCexT{tp, "the real code does not return on this input (engine: step / allocation bound exceeded; native: no result within the replay's time limit)"})
					}
					continue
				}
				if tp.Expect == "ok" {
					if msg := compareWitness(tp, r); msg != "" {
						mismatches++
						mismatchNotes = appendUniq(mismatchNotes, tp.ID+": "+msg)
						// A witness is a concrete input produced by the solver.  If the REAL code, run
						// natively on it, fails a harness assertion (or panics) while honouring every
						// assumption, that is a reproduced violation of the property whatever the engine
						// predicted for the path (the engine's contract models did not apply to the code).
						if !tp.Sched && !r.AssumeFail && !r.Underflow && r.Unused == 0 && (len(r.Fails) > 0 || r.Panic != "") {
							what := r.Panic
							if len(r.Fails) > 0 {
								what = r.Fails[0]
							}
							nativeCex = append(nativeCex, nativeCexT{tp, what})
						}
					} else if r.Skipped == "" {
						validated++
					}
				} else {
					ok := (len(r.Fails) > 0 || r.Panic != "" || r.Deadlock) && !r.GateBroken
					if tp.Race {
						ok = r.RaceSeen
					}
					if ok {
						reproduced[tp.ID] = true
						validated++
					} else {
						unrepro = append(unrepro, tp)
					}
				}
			}
			// a counterexample whose schedule cannot be staged natively is not a mismatch when a
			// stageable variant of the same failure kind of the same root did reproduce
			sibling := map[string]bool{}
			for _, tp := range tapes {
				if tp.Expect == "fail" && reproduced[tp.ID] {
					sibling[tapeRoot[tp.ID].Root.Key()+"|"+tp.failure.Kind] = true
				}
			}
			for _, tp := range unrepro {
				if sibling[tapeRoot[tp.ID].Root.Key()+"|"+tp.failure.Kind] {
					continue
				}
				mismatches++
				mismatchNotes = appendUniq(mismatchNotes, tp.ID+": counterexample did not reproduce natively ("+tp.failure.Kind+": "+tp.failure.Msg+")")
			}
		}
	}

	// ---- verdict ----
	known := loadKnownFindings(filepath.Join(verifDir, "known_findings.txt"))
	violations := 0
	os.MkdirAll(filepath.Join(verifDir, "evidence", "replays"), 0o755)
	usedKnown := map[int]bool{}
	rootReproduced := map[string]bool{}
	for i, c := range cexs {
		if reproduced[fmt.Sprintf("%s#cex%d", c.rr.Root.Key(), i)] {
			rootReproduced[c.rr.Root.Key()+"|"+c.f.Kind] = true
		}
	}
	for i, c := range cexs {
		id := fmt.Sprintf("%s#cex%d", c.rr.Root.Key(), i)
		if !*noReplay && !reproduced[id] && rootReproduced[c.rr.Root.Key()+"|"+c.f.Kind] {
			continue // a natively stageable variant of the same failure of this root reproduced
		}
		if !*noReplay && !reproduced[id] {
			fmt.Printf("ENGINE-MISMATCH property=%s %s: %s (%s) did not reproduce natively; not reported as violation\n", *prop, c.rr.Root.Key(), c.f.Msg, c.f.Site)
			inconcl = appendUniq(inconcl, "engine mismatch: "+c.rr.Root.Key()+" "+c.f.Msg)
			continue
		}
		if ki := known.match(*prop, c.rr.Root, c.f); ki >= 0 {
			if !usedKnown[ki] {
				usedKnown[ki] = true
				fmt.Printf("KNOWN-FINDING: property=%s %s\n", *prop, known.entries[ki].text)
			}
			continue
		}
		violations++
		rp := filepath.Join(verifDir, "evidence", "replays", sanitize(fmt.Sprintf("%s_%s_%d.json", *prop, c.rr.Root.Key(), i)))
		tp := &Tape{ID: id, Harness: c.rr.Root.Harness, Params: c.rr.Root.Params, Nondet: c.f.Nondet, Chooses: c.f.Chooses, Expect: "fail", Sched: hasSched(c.f.Decs), Race: c.f.Kind == "race"}
		if c.f.LibPrio {
			tp.Env = c.f.Env
		} else if tp.Sched && c.f.Kind != "race" && len(c.f.STrace) > 0 && len(c.f.STrace) < 4000 {
			tp.STrace = c.f.STrace
		}
		data, _ := json.MarshalIndent(map[string]interface{}{"property": *prop, "tape": tp, "failure": map[string]string{"kind": c.f.Kind, "msg": c.f.Msg, "site": c.f.Site}, "decisions": decString(c.f.Decs), "env_events": c.f.Env}, "", " ")
		os.WriteFile(rp, data, 0o644)
		fmt.Printf("VIOLATION property=%s replay=%s\n", *prop, rp)
		fmt.Printf("  root=%s kind=%s msg=%q site=%s inputs=%v choices=%v\n", c.rr.Root.Key(), c.f.Kind, c.f.Msg, c.f.Site, trunc(c.f.Nondet, 64), c.f.Chooses)
		if len(samples) < 10 {
			samples = append(samples, sampleT{Root: c.rr.Root.Key(), Kind: "counterexample: " + c.f.Kind + ": " + c.f.Msg, Nondet: trunc(c.f.Nondet, 48), Chooses: c.f.Chooses})
		}
	}
	seenNative := map[string]bool{}
	for i, nc := range nativeCex {
		rr := tapeRoot[nc.tp.ID]
		k := rr.Root.Key() + "|" + nc.what
		if seenNative[k] {
			continue
		}
		seenNative[k] = true
		kindN := "native-witness"
		if nc.tp.Expect == "probe" {
			kindN = "native-probe"
		}
		f := &Failure{Kind: kindN, Msg: nc.what}
		if ki := known.match(*prop, rr.Root, f); ki >= 0 {
			if !usedKnown[ki] {
				usedKnown[ki] = true
				fmt.Printf("KNOWN-FINDING: property=%s %s\n", *prop, known.entries[ki].text)
			}
			continue
		}
		violations++
		rp := filepath.Join(verifDir, "evidence", "replays", sanitize(fmt.Sprintf("%s_%s_w%d.json", *prop, rr.Root.Key(), i)))
		tp := &Tape{ID: nc.tp.ID, Harness: nc.tp.Harness, Params: nc.tp.Params, Nondet: nc.tp.Nondet, Chooses: nc.tp.Chooses, Expect: "fail"}
		data, _ := json.MarshalIndent(map[string]interface{}{"property": *prop, "tape": tp, "failure": map[string]string{"kind": "native-witness", "msg": nc.what,
			"note": "solver-generated path witness on which the real code, run natively, fails the harness assertion although the engine's model of the path discharged it"}}, "", " ")
		os.WriteFile(rp, data, 0o644)
		fmt.Printf("VIOLATION property=%s replay=%s\n", *prop, rp)
		fmt.Printf("  root=%s kind=%s msg=%q inputs=%v choices=%v\n", rr.Root.Key(), kindN, nc.what, trunc(nc.tp.Nondet, 64), nc.tp.Chooses)
		if len(samples) < 10 {
			samples = append(samples, sampleT{Root: rr.Root.Key(), Kind: "counterexample (native replay of a solver witness): " + nc.what, Nondet: trunc(nc.tp.Nondet, 48), Chooses: nc.tp.Chooses})
		}
	}
	for _, n := range mismatchNotes {
		fmt.Printf("ENGINE-MISMATCH property=%s %s\n", *prop, n)
	}
	for _, s := range inconcl {
		fmt.Printf("INCONCLUSIVE property=%s %s\n", *prop, s)
	}
	wall := time.Since(start).Seconds()
	fmt.Printf("SUMMARY property=%s tier=%s roots=%d paths=%d infeasible=%d obligations_discharged=%d folded=%d decisions=%d queries(sat=%d unsat=%d unknown=%d err=%d) solver_s=%.1f replayed=%d mismatches=%d violations=%d inconclusive=%d load_s=%.1f explore_s=%.1f replay_s=%.1f wall_s=%.1f\n",
		*prop, *tier, len(roots), paths, infeasible, asserts, folded, decisions, x.stats.Sat, x.stats.Unsat, x.stats.Unknown, x.stats.Errors, x.stats.Time.Seconds(), validated, mismatches, violations, len(inconcl), loadS, exploreS, replayS, wall)

	if !*noEvidence {
		if len(samples) == 0 {
			samples = append(samples, sampleT{Root: roots[0].Key(), Kind: "root explored"})
		}
		rootKeys := []string{}
		for _, r := range roots {
			if len(rootKeys) < 40 {
				rootKeys = append(rootKeys, r.Key())
			}
		}
		var repoFuncs, harnessFuncs, modelFuncs []string
		for _, f := range sortedKeys(funcs) {
			switch {
			case strings.HasPrefix(f, "harness:"):
				harnessFuncs = append(harnessFuncs, strings.TrimPrefix(f, "harness:"))
			case strings.HasPrefix(f, "model:"):
				modelFuncs = append(modelFuncs, strings.TrimPrefix(f, "model:"))
			default:
				repoFuncs = append(repoFuncs, f)
			}
		}
		ev := map[string]interface{}{
			"property_id": *prop,
			"tier":        *tier,
			"seed":        seed,
			"level":       "model_checking",
			"wall_s":      wall,
			"violations":  violations,
			"coverage": map[string]interface{}{
				"states":                           max(paths-infeasible, 1),
				"transitions":                      max(decisions, 1),
				"traces_validated_against_impl":    validated,
				"samples":                          samples,
				"exhaustive":                       len(inconcl) == 0,
				"explanation":                      "states = symbolic paths of the real SSA code explored to completion (each covers every input satisfying its path condition); transitions = branch/structure/schedule decisions; every obligation is decided by an SMT query (unsat = holds for all inputs on that path)",
				"roots":                            len(roots),
				"root_list_head":                   rootKeys,
				"bounds":                           boundsFor(*prop, *tier),
				"paths_infeasible":                 infeasible,
				"obligations_discharged_by_solver": asserts,
				"obligations_folded_by_simplifier": folded,
				"queries":                          map[string]int{"sat": x.stats.Sat, "unsat": x.stats.Unsat, "unknown": x.stats.Unknown, "errors": x.stats.Errors},
				"solver_s":                         x.stats.Time.Seconds(),
				"solver":                           *solver + " (fallback cvc5 on unknown obligations)",
				"functions_encoded":                repoFuncs,
				"harness_functions_executed":       len(harnessFuncs),
				"contract_models_used":             modelFuncs,
				"inconclusive":                     inconcl,
				"engine_mismatches":                mismatchNotes,
				"known_findings_matched":           len(usedKnown),
				"ssa_instructions_executed":        steps,
				"race_monitor_accesses_checked":    raceChecks,
				"last_resort_solver_queries":       lastResortQueries.Load(),
				"second_solver_rechecks":           map[string]interface{}{"solver": "z3-new 5.1.0, from scratch", "every_nth_discharged_obligation": x.crossRate, "rechecked": crossChecked, "disagreements": crossDisagree},
				"lib_priority_reexplored_roots":    len(lpResults),
				"load_s":                           loadS,
				"replay_s":                         replayS,
			},
			"assumptions": append(assumptionsFor(*prop), harnessAssumes(filepath.Join(verifDir, "harness"), harnessFuncs)...),
		}
		data, _ := json.MarshalIndent(ev, "", " ")
		os.MkdirAll(filepath.Join(verifDir, "evidence"), 0o755)
		os.WriteFile(filepath.Join(verifDir, "evidence", *prop+".json"), data, 0o644)
	}
	if violations > 0 {
		return 1
	}
	return 0
}

func traceSig(tr []TraceEv) string {
	var sb strings.Builder
	for _, e := range tr {
		fmt.Fprintf(&sb, "%s/%s/%d;", e.Role, e.Site, e.Code)
	}
	return sb.String()
}

func siteNoFn(s string) string {
	if i := strings.Index(s, "("); i >= 0 {
		return s[:i]
	}
	return s
}

func trunc(v []uint64, n int) []uint64 {
	if len(v) > n {
		return v[:n]
	}
	return v
}

func sanitize(s string) string {
	r := strings.NewReplacer("(", "_", ")", "", ",", "-", "#", "_", " ", "", "/", "_")
	return r.Replace(s)
}

// ---- known findings ----

type knownEntry struct {
	fixed   bool
	prop    string
	harness string
	root    string
	msg     string
	text    string
}

type knownSet struct{ entries []knownEntry }

func loadKnownFindings(path string) *knownSet {
	ks := &knownSet{}
	data, err := os.ReadFile(path)
	if err != nil {
		return ks
	}
	for _, line := range strings.Split(string(data), "\n") {
		line = strings.TrimSpace(line)
		if line == "" || strings.HasPrefix(line, "#") {
			continue
		}
		if !strings.HasPrefix(line, "known:") {
			continue // "fixed:" entries suppress nothing
		}
		e := knownEntry{text: strings.TrimSpace(strings.TrimPrefix(line, "known:"))}
		rest := e.text
		for _, f := range []struct {
			k string
			p *string
		}{{"property=", &e.prop}, {"harness=", &e.harness}, {"root=", &e.root}} {
			if i := strings.Index(rest, f.k); i >= 0 {
				v := rest[i+len(f.k):]
				if j := strings.IndexByte(v, ' '); j >= 0 {
					v = v[:j]
				}
				*f.p = v
			}
		}
		if i := strings.Index(rest, "msg=\""); i >= 0 {
			v := rest[i+5:]
			if j := strings.IndexByte(v, '"'); j >= 0 {
				e.msg = v[:j]
			}
		}
		ks.entries = append(ks.entries, e)
	}
	return ks
}

func (ks *knownSet) match(prop string, r Root, f *Failure) int {
	for i, e := range ks.entries {
		if e.prop != prop || e.harness != r.Harness {
			continue
		}
		if e.root != "*" && e.root != paramStr(r.Params) {
			continue
		}
		if e.msg != f.Msg {
			continue
		}
		return i
	}
	return -1
}

func paramStr(p []int) string {
	s := make([]string, len(p))
	for i, v := range p {
		s[i] = strconv.Itoa(v)
	}
	return strings.Join(s, ",")
}

func sortStrings(s []string) []string { sort.Strings(s); return s }

func hasSched(ds []Dec) bool {
	for _, d := range ds {
		if d.K == 's' {
			return true
		}
	}
	return false
}

func rr0(rr *RootResult) *RootResult { return rr }

// hasSchedRoot: did any path of the root involve scheduling decisions (concurrent harness)?
func hasSchedRoot(rr *RootResult) bool {
	for _, f := range rr.Failures {
		if hasSched(f.Decs) {
			return true
		}
	}
	for _, w := range rr.Witnesses {
		if hasSched(w.Decs) {
			return true
		}
	}
	for _, w := range rr.Probes {
		if hasSched(w.Decs) {
			return true
		}
	}
	return false
}
