package main

// Hash-consed bit-vector / boolean term DAG with a light simplifier, an
// evaluator (for model evaluation and replay-tape construction) and an
// SMT-LIB2 printer.

import (
	"fmt"
	"math/bits"
	"sort"
	"strings"
)

type Op uint8

const (
	OConst Op = iota
	OVar
	OAdd
	OSub
	OMul
	OUDiv
	OURem
	OSDiv
	OSRem
	OAnd
	OOr
	OXor
	ONot
	ONeg
	OShl
	OLShr
	OAShr
	OConcat
	OExtract // c = hi<<8|lo
	OZExt
	OSExt
	OEq // bv or bool args -> bool
	OUlt
	OUle
	OSlt
	OSle
	OBNot
	OBAnd
	OBOr
	OIte // a[0] bool; a[1],a[2] bv or bool
	OUF  // uninterpreted function name(args) -> bv w
	OFP  // interpreted IEEE-754 function name(args) over bit patterns (fp.go)
)

var opNames = map[Op]string{
	OAdd: "bvadd", OSub: "bvsub", OMul: "bvmul", OUDiv: "bvudiv", OURem: "bvurem",
	OSDiv: "bvsdiv", OSRem: "bvsrem", OAnd: "bvand", OOr: "bvor", OXor: "bvxor",
	ONot: "bvnot", ONeg: "bvneg", OShl: "bvshl", OLShr: "bvlshr", OAShr: "bvashr",
	OConcat: "concat", OEq: "=", OUlt: "bvult", OUle: "bvule", OSlt: "bvslt", OSle: "bvsle",
	OBNot: "not", OBAnd: "and", OBOr: "or", OIte: "ite",
}

// Term: w == 0 means Bool sort, otherwise bit-vector of width w (1..64).
type Term struct {
	op   Op
	w    int
	a    []*Term
	c    uint64
	name string
	id   int
	ub   uint64 // unsigned upper bound on the value (bv only)
	lb   uint64 // unsigned lower bound on the value (bv only)
	pm   uint64 // mask of bits that may be one (bv only)
	cl   bool   // ite tree whose leaves are all constants (at most 64 leaves)
	nl   int    // number of leaves of such a tree
}

func (t *Term) IsConst() bool { return t.op == OConst }
func (t *Term) IsBool() bool  { return t.w == 0 }

func mask(w int) uint64 {
	if w >= 64 {
		return ^uint64(0)
	}
	return (uint64(1) << uint(w)) - 1
}

// DigitInfo records that a byte-sized term is the k-th (from the right)
// decimal digit character of value v rendered with exactly n digits.
type DigitInfo struct {
	v    *Term
	k, n int
}

// HexInfo records that a byte term is the hex character (lowercase) of the
// high (hi=true) or low nibble of byte term b.
type HexInfo struct {
	b  *Term
	hi bool
}

// Ctx is a per-path term factory.
type termKey struct {
	op         Op
	w          int
	c          uint64
	name       string
	a0, a1, a2 int
}

type Ctx struct {
	ktab      map[termKey]*Term
	ctab      map[constKey]*Term
	tab       map[string]*Term
	nextID    int
	vars      []*Term
	digit     map[*Term]DigitInfo
	hexd      map[*Term]HexInfo
	floatInfo map[*Term]*FloatText
	ufs       map[string]ufSig
	True      *Term
	False     *Term
}

type ufSig struct {
	argW []int
	w    int
}

func NewCtx() *Ctx {
	c := &Ctx{tab: map[string]*Term{}, ktab: map[termKey]*Term{}, ctab: map[constKey]*Term{}, digit: map[*Term]DigitInfo{}, hexd: map[*Term]HexInfo{}, floatInfo: map[*Term]*FloatText{}, ufs: map[string]ufSig{}}
	c.True = c.mk(&Term{op: OConst, w: 0, c: 1})
	c.False = c.mk(&Term{op: OConst, w: 0, c: 0})
	return c
}

func (c *Ctx) mk(t *Term) *Term {
	var k termKey
	var sk string
	if len(t.a) <= 3 {
		k = termKey{op: t.op, w: t.w, c: t.c, name: t.name, a0: -1, a1: -1, a2: -1}
		if len(t.a) > 0 {
			k.a0 = t.a[0].id
		}
		if len(t.a) > 1 {
			k.a1 = t.a[1].id
		}
		if len(t.a) > 2 {
			k.a2 = t.a[2].id
		}
		if e, ok := c.ktab[k]; ok {
			return e
		}
	} else {
		var sb strings.Builder
		fmt.Fprintf(&sb, "%d:%d:%d:%s", t.op, t.w, t.c, t.name)
		for _, a := range t.a {
			fmt.Fprintf(&sb, ",%d", a.id)
		}
		sk = sb.String()
		if e, ok := c.tab[sk]; ok {
			return e
		}
	}
	t.id = c.nextID
	c.nextID++
	if t.op == OIte {
		l1, l2 := leafCount(t.a[1]), leafCount(t.a[2])
		if l1 > 0 && l2 > 0 && l1+l2 <= 64 {
			t.cl, t.nl = true, l1+l2
		}
	}
	if t.w > 0 {
		t.pm = c.possible(t)
		t.ub = c.bound(t)
		if t.pm < t.ub {
			t.ub = t.pm
		}
		if t.ub < mask(t.w) {
			if m := mask(bits.Len64(t.ub)); m < t.pm {
				t.pm &= m
			}
		}
		t.lb = c.lower(t)
		if t.lb > t.ub {
			t.lb = 0
		}
	}
	if sk != "" {
		c.tab[sk] = t
	} else {
		c.ktab[k] = t
	}
	return t
}

func (c *Ctx) bound(t *Term) uint64 {
	m := mask(t.w)
	min := func(a, b uint64) uint64 {
		if a < b {
			return a
		}
		return b
	}
	switch t.op {
	case OConst:
		return t.c
	case OZExt:
		return t.a[0].ub
	case OExtract:
		lo := int(t.c & 0xff)
		if lo == 0 {
			return min(m, t.a[0].ub)
		}
		return min(m, t.a[0].ub>>uint(lo))
	case OAnd:
		return min(t.a[0].ub, t.a[1].ub)
	case OOr, OXor:
		x := t.a[0].ub | t.a[1].ub
		if x == 0 {
			return 0
		}
		return min(m, mask(bits.Len64(x)))
	case OAdd:
		s, carry := bits.Add64(t.a[0].ub, t.a[1].ub, 0)
		if carry != 0 || s > m {
			return m
		}
		return s
	case OMul:
		hi, lo := bits.Mul64(t.a[0].ub, t.a[1].ub)
		if hi != 0 || lo > m {
			return m
		}
		return lo
	case OSub:
		// no wrap-around when the minuend's lower bound covers the subtrahend
		if t.a[0].lb >= t.a[1].ub {
			return t.a[0].ub - t.a[1].lb
		}
		return m
	case OUDiv:
		if t.a[1].op == OConst && t.a[1].c != 0 {
			return t.a[0].ub / t.a[1].c
		}
		return m // div by zero gives all ones in SMT
	case OURem:
		if t.a[1].op == OConst && t.a[1].c != 0 {
			return min(t.a[0].ub, t.a[1].c-1)
		}
		return min(m, t.a[0].ub|t.a[1].ub)
	case OLShr:
		if t.a[1].op == OConst {
			if t.a[1].c >= uint64(t.w) {
				return 0
			}
			return t.a[0].ub >> t.a[1].c
		}
		return t.a[0].ub
	case OShl:
		if t.a[1].op == OConst && t.a[1].c < 64 {
			x := t.a[0].ub
			if bits.Len64(x)+int(t.a[1].c) <= t.w {
				return x << t.a[1].c
			}
		}
		return m
	case OIte:
		if t.a[1].ub > t.a[2].ub {
			return t.a[1].ub
		}
		return t.a[2].ub
	case OConcat:
		// hi ++ lo
		lw := t.a[1].w
		if lw >= 64 {
			return m
		}
		return min(m, (t.a[0].ub<<uint(lw))|mask(lw))
	}
	return m
}

// possible computes a mask of the bits that may be set in t.
func (c *Ctx) possible(t *Term) uint64 {
	m := mask(t.w)
	switch t.op {
	case OConst:
		return t.c
	case OZExt:
		return t.a[0].pm
	case OExtract:
		return (t.a[0].pm >> uint(t.c&0xff)) & m
	case OAnd:
		return t.a[0].pm & t.a[1].pm
	case OOr, OXor:
		return t.a[0].pm | t.a[1].pm
	case OShl:
		if t.a[1].op == OConst && t.a[1].c < 64 {
			return (t.a[0].pm << t.a[1].c) & m
		}
	case OLShr:
		if t.a[1].op == OConst && t.a[1].c < 64 {
			return t.a[0].pm >> t.a[1].c
		}
	case OIte:
		return t.a[1].pm | t.a[2].pm
	case OConcat:
		lw := t.a[1].w
		if lw < 64 {
			return (t.a[0].pm<<uint(lw) | t.a[1].pm) & m
		}
	}
	return m
}

// lower computes an unsigned lower bound from the structure of t.
func (c *Ctx) lower(t *Term) uint64 {
	switch t.op {
	case OConst:
		return t.c
	case OZExt:
		return t.a[0].lb
	case OExtract:
		if t.c&0xff == 0 && t.a[0].ub <= mask(t.w) {
			return t.a[0].lb
		}
	case OAdd:
		s, carry := bits.Add64(t.a[0].ub, t.a[1].ub, 0)
		if carry == 0 && s <= mask(t.w) {
			return t.a[0].lb + t.a[1].lb
		}
	case OOr:
		if t.a[0].lb > t.a[1].lb {
			return t.a[0].lb
		}
		return t.a[1].lb
	case OSub:
		if t.a[0].lb >= t.a[1].ub {
			return t.a[0].lb - t.a[1].ub
		}
	case OIte:
		if t.a[1].lb < t.a[2].lb {
			return t.a[1].lb
		}
		return t.a[2].lb
	case OUDiv:
		if t.a[1].op == OConst && t.a[1].c != 0 {
			return t.a[0].lb / t.a[1].c
		}
	case OMul:
		hi, lo := bits.Mul64(t.a[0].ub, t.a[1].ub)
		if hi == 0 && lo <= mask(t.w) {
			return t.a[0].lb * t.a[1].lb
		}
	}
	return 0
}

func leafCount(t *Term) int {
	if t.op == OConst {
		return 1
	}
	if t.cl {
		return t.nl
	}
	return 0
}

// mapLeaves applies f to every constant leaf of a const-leaf ite tree.
func (c *Ctx) mapLeaves(t *Term, f func(k *Term) *Term) *Term {
	if t.op == OConst {
		return f(t)
	}
	return c.Ite(t.a[0], c.mapLeaves(t.a[1], f), c.mapLeaves(t.a[2], f))
}

type constKey struct {
	w int
	v uint64
}

func (c *Ctx) Const(w int, v uint64) *Term {
	if w == 0 {
		if v != 0 {
			return c.True
		}
		return c.False
	}
	v &= mask(w)
	k := constKey{w, v}
	if t, ok := c.ctab[k]; ok {
		return t
	}
	t := c.mk(&Term{op: OConst, w: w, c: v})
	c.ctab[k] = t
	return t
}

func (c *Ctx) Bool(b bool) *Term {
	if b {
		return c.True
	}
	return c.False
}

func (c *Ctx) Var(name string, w int) *Term {
	t := c.mk(&Term{op: OVar, w: w, name: name})
	if len(c.vars) == 0 || c.vars[len(c.vars)-1] != t {
		found := false
		for _, v := range c.vars {
			if v == t {
				found = true
				break
			}
		}
		if !found {
			c.vars = append(c.vars, t)
		}
	}
	return t
}

func (c *Ctx) UF(name string, w int, args ...*Term) *Term {
	sig := ufSig{w: w}
	for _, a := range args {
		sig.argW = append(sig.argW, a.w)
	}
	c.ufs[name] = sig
	return c.mk(&Term{op: OUF, w: w, name: name, a: args})
}

func sext64(v uint64, w int) int64 {
	if w >= 64 {
		return int64(v)
	}
	s := uint(64 - w)
	return int64(v<<s) >> s
}

func evalBin(op Op, w int, x, y uint64) uint64 {
	m := mask(w)
	switch op {
	case OAdd:
		return (x + y) & m
	case OSub:
		return (x - y) & m
	case OMul:
		return (x * y) & m
	case OUDiv:
		if y == 0 {
			return m
		}
		return (x / y) & m
	case OURem:
		if y == 0 {
			return x
		}
		return (x % y) & m
	case OSDiv:
		sx, sy := sext64(x, w), sext64(y, w)
		if sy == 0 {
			if sx < 0 {
				return 1
			}
			return m
		}
		if sy == -1 {
			return uint64(-sx) & m
		}
		return uint64(sx/sy) & m
	case OSRem:
		sx, sy := sext64(x, w), sext64(y, w)
		if sy == 0 {
			return x
		}
		if sy == -1 {
			return 0
		}
		return uint64(sx%sy) & m
	case OAnd:
		return x & y
	case OOr:
		return x | y
	case OXor:
		return x ^ y
	case OShl:
		if y >= uint64(w) {
			return 0
		}
		return (x << y) & m
	case OLShr:
		if y >= uint64(w) {
			return 0
		}
		return x >> y
	case OAShr:
		sx := sext64(x, w)
		if y >= uint64(w) {
			y = uint64(w - 1)
		}
		return uint64(sx>>y) & m
	}
	panic("evalBin")
}

func (c *Ctx) Bin(op Op, x, y *Term) *Term {
	if x.w != y.w {
		panic(fmt.Sprintf("Bin width mismatch %v: %d vs %d", opNames[op], x.w, y.w))
	}
	w := x.w
	if x.op == OConst && y.op == OConst {
		return c.Const(w, evalBin(op, w, x.c, y.c))
	}
	if x.cl && y.op == OConst {
		return c.mapLeaves(x, func(k *Term) *Term { return c.Bin(op, k, y) })
	}
	if y.cl && x.op == OConst {
		return c.mapLeaves(y, func(k *Term) *Term { return c.Bin(op, x, k) })
	}
	// canonical order for commutative ops: constant on the right
	switch op {
	case OAdd, OMul, OAnd, OOr, OXor:
		if x.op == OConst {
			x, y = y, x
		}
	}
	m := mask(w)
	switch op {
	case OAdd:
		if y.op == OConst && y.c == 0 {
			return x
		}
		if x.pm&y.pm == 0 && y.op != OConst {
			// no carries possible: canonicalise to or
			return c.Bin(OOr, x, y)
		}
		// (a + c1) + c2
		if y.op == OConst && x.op == OAdd && x.a[1].op == OConst {
			return c.Bin(OAdd, x.a[0], c.Const(w, x.a[1].c+y.c))
		}
		if y.op == OConst && x.op == OSub && x.a[1].op == OConst {
			return c.Bin(OAdd, x.a[0], c.Const(w, y.c-x.a[1].c))
		}
	case OSub:
		if y.op == OConst && y.c == 0 {
			return x
		}
		if x == y {
			return c.Const(w, 0)
		}
		if y.op == OConst && x.lb < y.c {
			return c.Bin(OAdd, x, c.Const(w, -y.c))
		}
		// (a + k) - a
		if x.op == OAdd && x.a[0] == y {
			return x.a[1]
		}
		// (a + k1) - (a + k2)
		if x.op == OAdd && y.op == OAdd && x.a[0] == y.a[0] {
			return c.Bin(OSub, x.a[1], y.a[1])
		}
	case OMul:
		if y.op == OConst {
			if y.c == 0 {
				return y
			}
			if y.c == 1 {
				return x
			}
		}
	case OUDiv:
		if y.op == OConst {
			if y.c == 1 {
				return x
			}
			if y.c != 0 && x.ub < y.c {
				return c.Const(w, 0)
			}
			if n := narrowW(x.ub, y.c); y.c != 0 && n < w {
				return c.ZExt(c.Bin(OUDiv, c.Extract(x, n-1, 0), c.Const(n, y.c)), w)
			}
		}
	case OURem:
		if y.op == OConst && y.c != 0 {
			if y.c == 1 {
				return c.Const(w, 0)
			}
			if x.ub < y.c {
				return x
			}
			if y.c&(y.c-1) == 0 { // power of two
				return c.Bin(OAnd, x, c.Const(w, y.c-1))
			}
			if n := narrowW(x.ub, y.c); n < w {
				return c.ZExt(c.Bin(OURem, c.Extract(x, n-1, 0), c.Const(n, y.c)), w)
			}
		}
	case OSDiv, OSRem:
		// if both operands are known non-negative, use the unsigned op
		sm := uint64(1) << uint(w-1)
		if x.ub < sm && y.ub < sm {
			if op == OSDiv {
				return c.Bin(OUDiv, x, y)
			}
			return c.Bin(OURem, x, y)
		}
	case OAnd:
		if y.op == OConst {
			if y.c == 0 {
				return y
			}
			if y.c == m {
				return x
			}
			// mask covering all possible bits of x
			if y.c&(y.c+1) == 0 && x.ub <= y.c {
				return x
			}
			if x.op == OAnd && x.a[1].op == OConst {
				return c.Bin(OAnd, x.a[0], c.Const(w, x.a[1].c&y.c))
			}
			// and(zext(a), c) with c within a's width
			if x.op == OZExt && y.c <= mask(x.a[0].w) {
				return c.ZExt(c.Bin(OAnd, x.a[0], c.Const(x.a[0].w, y.c)), w)
			}
		}
		if x == y {
			return x
		}
	case OOr:
		if y.op == OConst {
			if y.c == 0 {
				return x
			}
			if y.c == m {
				return y
			}
		}
		if x == y {
			return x
		}
		if x.op == OOr || y.op == OOr {
			return c.orChain(w, x, y)
		}
		if orLess(y, x) {
			x, y = y, x
		}
	case OXor:
		if y.op == OConst && y.c == 0 {
			return x
		}
		if x == y {
			return c.Const(w, 0)
		}
		if y.op == OConst && x.op == OXor && x.a[1].op == OConst {
			return c.Bin(OXor, x.a[0], c.Const(w, x.a[1].c^y.c))
		}
	case OShl, OLShr, OAShr:
		if y.op == OConst {
			if y.c == 0 {
				return x
			}
			if op == OShl && y.c < uint64(w) {
				if x.op == OOr {
					// distribute so that byte-assembly chains reach one canonical form
					return c.Bin(OOr, c.Bin(OShl, x.a[0], y), c.Bin(OShl, x.a[1], y))
				}
				if x.op == OShl && x.a[1].op == OConst && x.a[1].c+y.c < uint64(w) {
					return c.Bin(OShl, x.a[0], c.Const(w, x.a[1].c+y.c))
				}
			}
			if y.c >= uint64(w) && op != OAShr {
				return c.Const(w, 0)
			}
			if op == OLShr && bits.Len64(x.ub) <= int(y.c) {
				return c.Const(w, 0)
			}
			// shl(zext(a)) -> concat when it fits exactly is left to solver
			if op == OLShr && x.op == OZExt {
				aw := x.a[0].w
				if int(y.c) < aw {
					return c.ZExt(c.Extract(x.a[0], aw-1, int(y.c)), w)
				}
				return c.Const(w, 0)
			}
		}
		if x.op == OConst && x.c == 0 {
			return x
		}
	}
	return c.mk(&Term{op: op, w: w, a: []*Term{x, y}})
}

// narrowW returns the smallest width (>=1) able to hold both ub and d.
func narrowW(ub, d uint64) int {
	n := bits.Len64(ub)
	if k := bits.Len64(d); k > n {
		n = k
	}
	if n < 1 {
		n = 1
	}
	return n
}

func (c *Ctx) Not(x *Term) *Term {
	if x.op == OConst {
		return c.Const(x.w, ^x.c)
	}
	if x.op == ONot {
		return x.a[0]
	}
	return c.mk(&Term{op: ONot, w: x.w, a: []*Term{x}})
}

func (c *Ctx) Neg(x *Term) *Term {
	if x.op == OConst {
		return c.Const(x.w, -x.c)
	}
	if x.op == ONeg {
		return x.a[0]
	}
	return c.mk(&Term{op: ONeg, w: x.w, a: []*Term{x}})
}

func (c *Ctx) Extract(x *Term, hi, lo int) *Term {
	if lo == 0 && hi == x.w-1 {
		return x
	}
	w := hi - lo + 1
	if x.op == OConst {
		return c.Const(w, x.c>>uint(lo))
	}
	if x.cl {
		return c.mapLeaves(x, func(k *Term) *Term { return c.Extract(k, hi, lo) })
	}
	switch x.op {
	case OZExt:
		aw := x.a[0].w
		if hi < aw {
			return c.Extract(x.a[0], hi, lo)
		}
		if lo >= aw {
			return c.Const(w, 0)
		}
		return c.ZExt(c.Extract(x.a[0], aw-1, lo), w)
	case OSExt:
		aw := x.a[0].w
		if hi < aw {
			return c.Extract(x.a[0], hi, lo)
		}
	case OExtract:
		l0 := int(x.c & 0xff)
		return c.Extract(x.a[0], hi+l0, lo+l0)
	case OConcat:
		lw := x.a[1].w
		if hi < lw {
			return c.Extract(x.a[1], hi, lo)
		}
		if lo >= lw {
			return c.Extract(x.a[0], hi-lw, lo-lw)
		}
	case OAnd, OOr, OXor:
		if lo == 0 || x.a[1].op == OConst {
			return c.Bin(x.op, c.Extract(x.a[0], hi, lo), c.Extract(x.a[1], hi, lo))
		}
	case OAdd, OSub, OMul:
		if lo == 0 {
			return c.Bin(x.op, c.Extract(x.a[0], hi, 0), c.Extract(x.a[1], hi, 0))
		}
	case OShl:
		if lo == 0 && x.a[1].op == OConst {
			return c.Bin(OShl, c.Extract(x.a[0], hi, 0), c.Const(w, x.a[1].c))
		}
	case OIte:
		if x.a[1].op == OConst || x.a[2].op == OConst {
			return c.Ite(x.a[0], c.Extract(x.a[1], hi, lo), c.Extract(x.a[2], hi, lo))
		}
	}
	return c.mk(&Term{op: OExtract, w: w, a: []*Term{x}, c: uint64(hi)<<8 | uint64(lo)})
}

func (c *Ctx) ZExt(x *Term, w int) *Term {
	if w == x.w {
		return x
	}
	if w < x.w {
		return c.Extract(x, w-1, 0)
	}
	if x.op == OConst {
		return c.Const(w, x.c)
	}
	if x.cl {
		return c.mapLeaves(x, func(k *Term) *Term { return c.ZExt(k, w) })
	}
	if x.op == OZExt {
		return c.ZExt(x.a[0], w)
	}
	switch x.op {
	case OOr, OXor:
		// canonical form: extension innermost
		return c.Bin(x.op, c.ZExt(x.a[0], w), c.ZExt(x.a[1], w))
	case OShl:
		if x.a[1].op == OConst && bits.Len64(x.a[0].pm)+int(x.a[1].c) <= x.w {
			return c.Bin(OShl, c.ZExt(x.a[0], w), c.Const(w, x.a[1].c))
		}
	}
	return c.mk(&Term{op: OZExt, w: w, a: []*Term{x}})
}

func (c *Ctx) SExt(x *Term, w int) *Term {
	if w == x.w {
		return x
	}
	if w < x.w {
		return c.Extract(x, w-1, 0)
	}
	if x.op == OConst {
		return c.Const(w, uint64(sext64(x.c, x.w)))
	}
	if x.ub < uint64(1)<<uint(x.w-1) {
		return c.ZExt(x, w)
	}
	if x.op == OSExt {
		return c.SExt(x.a[0], w)
	}
	return c.mk(&Term{op: OSExt, w: w, a: []*Term{x}})
}

func (c *Ctx) Concat(hi, lo *Term) *Term {
	if hi.op == OConst && lo.op == OConst {
		return c.Const(hi.w+lo.w, hi.c<<uint(lo.w)|lo.c)
	}
	if hi.op == OConst && hi.c == 0 {
		return c.ZExt(lo, hi.w+lo.w)
	}
	return c.mk(&Term{op: OConcat, w: hi.w + lo.w, a: []*Term{hi, lo}})
}

func (c *Ctx) BNot(x *Term) *Term {
	if x.op == OConst {
		return c.Bool(x.c == 0)
	}
	if x.op == OBNot {
		return x.a[0]
	}
	return c.mk(&Term{op: OBNot, w: 0, a: []*Term{x}})
}

func (c *Ctx) BAnd(x, y *Term) *Term {
	if x.op == OConst {
		if x.c == 0 {
			return x
		}
		return y
	}
	if y.op == OConst {
		if y.c == 0 {
			return y
		}
		return x
	}
	if x == y {
		return x
	}
	return c.mk(&Term{op: OBAnd, w: 0, a: []*Term{x, y}})
}

func (c *Ctx) BOr(x, y *Term) *Term {
	if x.op == OConst {
		if x.c != 0 {
			return x
		}
		return y
	}
	if y.op == OConst {
		if y.c != 0 {
			return y
		}
		return x
	}
	if x == y {
		return x
	}
	return c.mk(&Term{op: OBOr, w: 0, a: []*Term{x, y}})
}

func (c *Ctx) Ite(cond, x, y *Term) *Term {
	if cond.op == OConst {
		if cond.c != 0 {
			return x
		}
		return y
	}
	if x == y {
		return x
	}
	if x.w == 0 {
		if x.op == OConst && y.op == OConst {
			if x.c != 0 {
				return cond
			}
			return c.BNot(cond)
		}
	}
	return c.mk(&Term{op: OIte, w: x.w, a: []*Term{cond, x, y}})
}

func (c *Ctx) Eq(x, y *Term) *Term {
	if x.w != y.w {
		panic(fmt.Sprintf("Eq width mismatch %d vs %d", x.w, y.w))
	}
	if x == y {
		return c.True
	}
	if x.op == OConst && y.op == OConst {
		return c.Bool(x.c == y.c)
	}
	if x.op == OConst {
		x, y = y, x
	}
	if x.w == 0 {
		if y.op == OConst {
			if y.c != 0 {
				return x
			}
			return c.BNot(x)
		}
		return c.mk(&Term{op: OEq, w: 0, a: []*Term{x, y}})
	}
	if y.op == OConst {
		if y.c > x.ub || y.c < x.lb {
			return c.False
		}
		// zext(a) == c
		if x.op == OZExt {
			if y.c > mask(x.a[0].w) {
				return c.False
			}
			return c.Eq(x.a[0], c.Const(x.a[0].w, y.c))
		}
		// (a + k) == c  ->  a == c-k
		if x.op == OAdd && x.a[1].op == OConst {
			return c.Eq(x.a[0], c.Const(x.w, y.c-x.a[1].c))
		}
		// const-leaf ite tree == k
		if x.cl {
			return c.mapLeaves(x, func(k *Term) *Term { return c.Bool(k.c == y.c) })
		}
		// xor(a,k) == c
		if x.op == OXor && x.a[1].op == OConst {
			return c.Eq(x.a[0], c.Const(x.w, y.c^x.a[1].c))
		}
	}
	if x.op == OZExt && y.op == OZExt && x.a[0].w == y.a[0].w {
		return c.Eq(x.a[0], y.a[0])
	}
	if x.id > y.id {
		x, y = y, x
	}
	return c.mk(&Term{op: OEq, w: 0, a: []*Term{x, y}})
}

func (c *Ctx) Cmp(op Op, x, y *Term) *Term {
	if x.w != y.w {
		panic(fmt.Sprintf("Cmp width mismatch %d vs %d", x.w, y.w))
	}
	w := x.w
	if x.op == OConst && y.op == OConst {
		switch op {
		case OUlt:
			return c.Bool(x.c < y.c)
		case OUle:
			return c.Bool(x.c <= y.c)
		case OSlt:
			return c.Bool(sext64(x.c, w) < sext64(y.c, w))
		case OSle:
			return c.Bool(sext64(x.c, w) <= sext64(y.c, w))
		}
	}
	if x == y {
		return c.Bool(op == OUle || op == OSle)
	}
	if x.cl && y.op == OConst {
		return c.mapLeaves(x, func(k *Term) *Term { return c.Cmp(op, k, y) })
	}
	if y.cl && x.op == OConst {
		return c.mapLeaves(y, func(k *Term) *Term { return c.Cmp(op, x, k) })
	}
	sm := uint64(1) << uint(w-1)
	if (op == OSlt || op == OSle) && x.ub < sm && y.ub < sm {
		if op == OSlt {
			op = OUlt
		} else {
			op = OUle
		}
	}
	switch op {
	case OUlt:
		if x.ub < y.lb {
			return c.True
		}
		if x.lb >= y.ub {
			return c.False
		}
		if y.op == OConst && x.ub < y.c {
			return c.True
		}
		if y.op == OConst && y.c == 0 {
			return c.False
		}
		if x.op == OConst && x.c >= y.ub {
			return c.False
		}
		if x.op == OConst && x.c == 0 {
			// 0 < y  <=>  y != 0
			return c.BNot(c.Eq(y, x))
		}
		if y.op == OConst && y.c == 1 {
			// x < 1  <=>  x == 0
			return c.Eq(x, c.Const(w, 0))
		}
	case OUle:
		if x.ub <= y.lb {
			return c.True
		}
		if x.lb > y.ub {
			return c.False
		}
		if y.op == OConst && x.ub <= y.c {
			return c.True
		}
		if x.op == OConst && x.c > y.ub {
			return c.False
		}
		if x.op == OConst && x.c == 0 {
			return c.True
		}
	case OSlt:
		// x non-negative and y is constant negative
		if y.op == OConst && x.ub < sm && y.c >= sm {
			return c.False
		}
		if x.op == OConst && y.ub < sm && x.c >= sm {
			return c.True
		}
	case OSle:
		if y.op == OConst && x.ub < sm && y.c >= sm {
			return c.False
		}
		if x.op == OConst && y.ub < sm && x.c >= sm {
			return c.True
		}
	}
	// narrow zext comparisons against constants
	if (op == OUlt || op == OUle) && x.op == OZExt && y.op == OConst && y.c <= mask(x.a[0].w) {
		return c.Cmp(op, x.a[0], c.Const(x.a[0].w, y.c))
	}
	if (op == OUlt || op == OUle) && y.op == OZExt && x.op == OConst && x.c <= mask(y.a[0].w) {
		return c.Cmp(op, c.Const(y.a[0].w, x.c), y.a[0])
	}
	if (op == OUlt || op == OUle) && x.op == OZExt && y.op == OZExt && x.a[0].w == y.a[0].w {
		return c.Cmp(op, x.a[0], y.a[0])
	}
	return c.mk(&Term{op: op, w: 0, a: []*Term{x, y}})
}

// ---- evaluation under a model ----

type Model map[string]uint64

type evaluator struct {
	m    Model
	memo map[*Term]uint64
	// ufv gives values of UF applications (by printed key) if known
	missingUF bool
}

func Eval(t *Term, m Model) (uint64, bool) {
	e := &evaluator{m: m, memo: map[*Term]uint64{}}
	v := e.eval(t)
	return v, !e.missingUF
}

func (e *evaluator) eval(t *Term) uint64 {
	if v, ok := e.memo[t]; ok {
		return v
	}
	var v uint64
	switch t.op {
	case OConst:
		v = t.c
	case OVar:
		v = e.m[t.name] & maskb(t.w)
	case OUF:
		e.missingUF = true
		v = 0
	case OFP:
		av := make([]uint64, len(t.a))
		for i, a := range t.a {
			av[i] = e.eval(a)
		}
		fv, ok := fpEval(t.name, av)
		if !ok {
			e.missingUF = true
		}
		v = fv
	case ONot:
		v = ^e.eval(t.a[0]) & mask(t.w)
	case ONeg:
		v = -e.eval(t.a[0]) & mask(t.w)
	case OConcat:
		v = e.eval(t.a[0])<<uint(t.a[1].w) | e.eval(t.a[1])
	case OExtract:
		hi, lo := int(t.c>>8), int(t.c&0xff)
		v = (e.eval(t.a[0]) >> uint(lo)) & mask(hi-lo+1)
	case OZExt:
		v = e.eval(t.a[0])
	case OSExt:
		v = uint64(sext64(e.eval(t.a[0]), t.a[0].w)) & mask(t.w)
	case OEq:
		v = b2u(e.eval(t.a[0]) == e.eval(t.a[1]))
	case OUlt:
		v = b2u(e.eval(t.a[0]) < e.eval(t.a[1]))
	case OUle:
		v = b2u(e.eval(t.a[0]) <= e.eval(t.a[1]))
	case OSlt:
		v = b2u(sext64(e.eval(t.a[0]), t.a[0].w) < sext64(e.eval(t.a[1]), t.a[0].w))
	case OSle:
		v = b2u(sext64(e.eval(t.a[0]), t.a[0].w) <= sext64(e.eval(t.a[1]), t.a[0].w))
	case OBNot:
		v = b2u(e.eval(t.a[0]) == 0)
	case OBAnd:
		v = b2u(e.eval(t.a[0]) != 0 && e.eval(t.a[1]) != 0)
	case OBOr:
		v = b2u(e.eval(t.a[0]) != 0 || e.eval(t.a[1]) != 0)
	case OIte:
		if e.eval(t.a[0]) != 0 {
			v = e.eval(t.a[1])
		} else {
			v = e.eval(t.a[2])
		}
	default:
		v = evalBin(t.op, t.w, e.eval(t.a[0]), e.eval(t.a[1]))
	}
	e.memo[t] = v
	return v
}

func maskb(w int) uint64 {
	if w == 0 {
		return 1
	}
	return mask(w)
}

func b2u(b bool) uint64 {
	if b {
		return 1
	}
	return 0
}

// ---- SMT-LIB2 printing ----

func sortStr(w int) string {
	if w == 0 {
		return "Bool"
	}
	return fmt.Sprintf("(_ BitVec %d)", w)
}

func constStr(w int, v uint64) string {
	if w == 0 {
		if v != 0 {
			return "true"
		}
		return "false"
	}
	if w%4 == 0 {
		return fmt.Sprintf("#x%0*x", w/4, v)
	}
	return fmt.Sprintf("#b%0*b", w, v)
}

// smtRef returns the reference string for a term in a solver session in
// which every non-leaf has been defined as t<ID>.
func smtRef(t *Term) string {
	switch t.op {
	case OConst:
		return constStr(t.w, t.c)
	case OVar:
		return t.name
	}
	return fmt.Sprintf("t%d", t.id)
}

// smtDef gives the body for a non-leaf term in terms of its children's refs.
func smtDef(t *Term) string {
	switch t.op {
	case OExtract:
		return fmt.Sprintf("((_ extract %d %d) %s)", t.c>>8, t.c&0xff, smtRef(t.a[0]))
	case OZExt:
		return fmt.Sprintf("((_ zero_extend %d) %s)", t.w-t.a[0].w, smtRef(t.a[0]))
	case OSExt:
		return fmt.Sprintf("((_ sign_extend %d) %s)", t.w-t.a[0].w, smtRef(t.a[0]))
	case OFP:
		return fpSmt(t)
	case OUF:
		if len(t.a) == 0 {
			return t.name
		}
		var sb strings.Builder
		sb.WriteString("(" + t.name)
		for _, a := range t.a {
			sb.WriteString(" " + smtRef(a))
		}
		sb.WriteString(")")
		return sb.String()
	}
	var sb strings.Builder
	sb.WriteString("(" + opNames[t.op])
	for _, a := range t.a {
		sb.WriteString(" " + smtRef(a))
	}
	sb.WriteString(")")
	return sb.String()
}

// String renders a term as a nested expression (debugging / samples).
func (t *Term) String() string {
	return termStr(t, 0)
}

func termStr(t *Term, depth int) string {
	switch t.op {
	case OConst:
		if t.w == 0 {
			return constStr(0, t.c)
		}
		return fmt.Sprintf("%d", t.c)
	case OVar:
		return t.name
	}
	if depth > 6 {
		return "…"
	}
	var sb strings.Builder
	switch t.op {
	case OExtract:
		return fmt.Sprintf("%s[%d:%d]", termStr(t.a[0], depth+1), t.c>>8, t.c&0xff)
	case OZExt:
		return fmt.Sprintf("zx%d(%s)", t.w, termStr(t.a[0], depth+1))
	case OSExt:
		return fmt.Sprintf("sx%d(%s)", t.w, termStr(t.a[0], depth+1))
	case OUF:
		sb.WriteString(t.name)
	case OFP:
		sb.WriteString("fp." + t.name)
	default:
		sb.WriteString(opNames[t.op])
	}
	sb.WriteString("(")
	for i, a := range t.a {
		if i > 0 {
			sb.WriteString(",")
		}
		sb.WriteString(termStr(a, depth+1))
	}
	sb.WriteString(")")
	return sb.String()
}

// rebuild constructs the term with t's operator over new arguments, going
// through the simplifying constructors.
func (c *Ctx) rebuild(t *Term, a []*Term) *Term {
	switch t.op {
	case ONot:
		return c.Not(a[0])
	case ONeg:
		return c.Neg(a[0])
	case OConcat:
		return c.Concat(a[0], a[1])
	case OExtract:
		return c.Extract(a[0], int(t.c>>8), int(t.c&0xff))
	case OZExt:
		return c.ZExt(a[0], t.w)
	case OSExt:
		return c.SExt(a[0], t.w)
	case OEq:
		return c.Eq(a[0], a[1])
	case OUlt, OUle, OSlt, OSle:
		return c.Cmp(t.op, a[0], a[1])
	case OBNot:
		return c.BNot(a[0])
	case OBAnd:
		return c.BAnd(a[0], a[1])
	case OBOr:
		return c.BOr(a[0], a[1])
	case OIte:
		return c.Ite(a[0], a[1], a[2])
	case OUF:
		return c.UF(t.name, t.w, a...)
	case OFP:
		return c.FP(t.name, t.w, a...)
	}
	return c.Bin(t.op, a[0], a[1])
}

// orLess orders the operands of an or-chain: constants last, otherwise by the
// lowest bit that may be set, then by creation order.
func orLess(a, b *Term) bool {
	if a.op == OConst || b.op == OConst {
		return a.op != OConst && b.op == OConst
	}
	ta, tb := bits.TrailingZeros64(a.pm), bits.TrailingZeros64(b.pm)
	if ta != tb {
		return ta < tb
	}
	return a.id < b.id
}

// orChain flattens nested ors, sorts the operands canonically and rebuilds a
// left-associated chain.
func (c *Ctx) orChain(w int, x, y *Term) *Term {
	var leaves []*Term
	var walk func(t *Term)
	walk = func(t *Term) {
		if t.op == OOr {
			walk(t.a[0])
			walk(t.a[1])
			return
		}
		leaves = append(leaves, t)
	}
	walk(x)
	walk(y)
	// merge constants, drop duplicates
	var k uint64
	uniq := leaves[:0]
	seen := map[*Term]bool{}
	for _, l := range leaves {
		if l.op == OConst {
			k |= l.c
			continue
		}
		if !seen[l] {
			seen[l] = true
			uniq = append(uniq, l)
		}
	}
	leaves = uniq
	if k == mask(w) {
		return c.Const(w, k)
	}
	sort.SliceStable(leaves, func(i, j int) bool { return orLess(leaves[i], leaves[j]) })
	if k != 0 {
		leaves = append(leaves, c.Const(w, k))
	}
	if len(leaves) == 0 {
		return c.Const(w, 0)
	}
	r := leaves[0]
	for _, l := range leaves[1:] {
		r = c.mk(&Term{op: OOr, w: w, a: []*Term{r, l}})
	}
	return r
}
