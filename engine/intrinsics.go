package main

// Contract models for library functions that end in assembly, reflection or
// formatting machinery, and the harness API (vh*).

import (
	"fmt"
	"go/types"
	"math"
	"strings"

	"golang.org/x/tools/go/ssa"
)

var intrinsics map[string]intrinsicFn
var vhIntrinsics map[string]intrinsicFn

func init() {
	intrinsics = map[string]intrinsicFn{
		"strconv.AppendInt":                             intrAppendInt,
		"strconv.AppendUint":                            intrAppendUint,
		"strconv.FormatInt":                             intrFormatInt,
		"strconv.FormatUint":                            intrFormatUint,
		"strconv.Itoa":                                  intrItoa,
		"strconv.ParseUint":                             intrParseUint,
		"strconv.AppendFloat":                           intrAppendFloat,
		"strconv.ParseFloat":                            intrParseFloat,
		"strconv.cloneString":                           intrIdentity,
		"strconv.Quote":                                 intrOpaqueString,
		"strconv.QuoteToASCII":                          intrOpaqueString,
		"strconv.QuoteToGraphic":                        intrOpaqueString,
		"strconv.AppendQuote":                           intrOpaqueBytes,
		"strconv.AppendQuoteToASCII":                    intrOpaqueBytes,
		"strconv.AppendQuoteToGraphic":                  intrOpaqueBytes,
		"fmt.Sprintf":                                   intrSprintf,
		"fmt.Fprintf":                                   intrFprintf,
		"fmt.Errorf":                                    intrErrorf,
		"fmt.Sprint":                                    intrOpaqueString,
		"fmt.Sprintln":                                  intrOpaqueString,
		"math.Float32frombits":                          intrIdentity,
		"math.Float64frombits":                          intrIdentity,
		"math.Float32bits":                              intrIdentity,
		"math.Float64bits":                              intrIdentity,
		"math.Trunc":                                    intrFPRound("trunc64"),
		"math.Floor":                                    intrFPRound("floor64"),
		"math.Ceil":                                     intrFPRound("ceil64"),
		"strings.genSplit":                              intrGenSplit,
		"strings.ToLower":                               intrToLower,
		"strings.TrimSpace":                             intrTrimSpace,
		"strings.Join":                                  intrJoin,
		"strings.IndexByte":                             intrIndexByteStr,
		"strings.Index":                                 intrIndexStr,
		"strings.Contains":                              intrContainsStr,
		"strings.HasPrefix":                             nil,
		"bytes.IndexByte":                               intrIndexByteBytes,
		"bytes.TrimRight":                               intrTrimRight,
		"bytes.Compare":                                 intrBytesCompare,
		"bytes.Equal":                                   intrBytesEqual,
		"internal/bytealg.MakeNoZero":                   intrMakeNoZero,
		"internal/bytealg.IndexByteString":              intrIndexByteStr,
		"internal/bytealg.IndexByte":                    intrIndexByteBytes,
		"(*sync.Once).Do":                               intrOnceDo,
		"(*sync.Map).Load":                              intrSyncMapLoad,
		"(*sync.Map).Store":                             intrSyncMapStore,
		"(*sync.Map).LoadOrStore":                       intrSyncMapLoadOrStore,
		"(*sync.Map).LoadAndDelete":                     intrSyncMapLoadAndDelete,
		"(*sync.Map).Delete":                            intrSyncMapDelete,
		"(*sync.Map).Range":                             intrSyncMapRange,
		"(*sync.Pool).Get":                              intrPoolGet,
		"(*sync.Pool).Put":                              intrPoolPut,
		"(*sync.WaitGroup).Add":                         intrWGAdd,
		"(*sync.WaitGroup).Done":                        intrWGDone,
		"(*sync.WaitGroup).Wait":                        intrWGWait,
		"(*sync.Mutex).Lock":                            intrMuLock,
		"(*sync.Mutex).Unlock":                          intrMuUnlock,
		"(*sync.RWMutex).Lock":                          intrMuLock,
		"(*sync.RWMutex).Unlock":                        intrMuUnlock,
		"(*sync.RWMutex).RLock":                         intrMuLock,
		"(*sync.RWMutex).RUnlock":                       intrMuUnlock,
		"(*sync/atomic.Value).Store":                    intrAtomicValueStore,
		"(*sync/atomic.Value).Load":                     intrAtomicValueLoad,
		"time.Unix":                                     intrTimeUnix,
		"(time.Time).Local":                             intrTimeLocal,
		"(time.Time).In":                                intrTimeIn,
		"(time.Time).Zone":                              intrTimeZone,
		"time.Now":                                      intrTimeNow,
		"time.FixedZone":                                intrTimeFixedZone,
		"(time.Time).UTC":                               intrTimeUTC,
		"(time.Time).Date":                              intrTimeDate,
		"(time.Time).Clock":                             intrTimeClock,
		"(time.Time).String":                            intrOpaqueString,
		"encoding/hex.EncodeToString":                   nil,
		"os.Getenv":                                     intrOpaqueString,
		"github.com/Breeze0806/mysql.NewDumpConn":       intrNewDumpConn,
		"(*github.com/Breeze0806/mysql.DumpConn).Close": intrDumpConnMethod,
		"(*github.com/Breeze0806/mysql.DumpConn).Exec":  intrDumpConnMethod,
		"(*github.com/Breeze0806/mysql.DumpConn).NoticeDump":        intrDumpConnMethod,
		"(*github.com/Breeze0806/mysql.DumpConn).ReadPacket":        intrDumpConnMethod,
		"(*github.com/Breeze0806/mysql.DumpConn).HandleErrorPacket": intrDumpConnMethod,
	}
	for k, v := range intrinsics {
		if v == nil {
			delete(intrinsics, k)
		}
	}
	vhIntrinsics = map[string]intrinsicFn{
		"vhU8":  func(e *Exec, _ *Frame, _ *ssa.Function, _ []Value) Value { return e.newVar(8, "v") },
		"vhU16": func(e *Exec, _ *Frame, _ *ssa.Function, _ []Value) Value { return e.newVar(16, "v") },
		"vhU32": func(e *Exec, _ *Frame, _ *ssa.Function, _ []Value) Value { return e.newVar(32, "v") },
		"vhU64": func(e *Exec, _ *Frame, _ *ssa.Function, _ []Value) Value { return e.newVar(64, "v") },
		"vhI64": func(e *Exec, _ *Frame, _ *ssa.Function, _ []Value) Value { return e.newVar(64, "v") },
		"vhBool": func(e *Exec, _ *Frame, _ *ssa.Function, _ []Value) Value {
			v := e.newVar(8, "v")
			return e.ctx.BNot(e.ctx.Eq(e.ctx.Extract(v, 0, 0), e.ctx.Const(1, 0)))
		},
		"vhBytes": func(e *Exec, _ *Frame, _ *ssa.Function, args []Value) Value {
			n := int(e.ConcInt(args[0].(*Term)))
			ts := make([]*Term, n)
			for i := range ts {
				ts[i] = e.newVar(8, "v")
			}
			s := e.bytesFromTerms(ts, "input")
			if n == 0 {
				// non-nil empty slice
				s.b = e.newBacking(0, "input")
			}
			return s
		},
		"vhChoose": func(e *Exec, _ *Frame, _ *ssa.Function, args []Value) Value {
			k := int(e.ConcInt(args[0].(*Term)))
			return e.i64(int64(e.Choose(k)))
		},
		"vhAssume": func(e *Exec, _ *Frame, _ *ssa.Function, args []Value) Value {
			e.Assume(args[0].(*Term))
			return nil
		},
		"vhAssert": func(e *Exec, _ *Frame, _ *ssa.Function, args []Value) Value {
			msg, _ := e.strConst(args[1].(StrV))
			e.Assert(args[0].(*Term), msg)
			return nil
		},
		"vhCover": func(e *Exec, _ *Frame, _ *ssa.Function, args []Value) Value {
			l, _ := e.strConst(args[0].(StrV))
			e.covers = append(e.covers, l)
			return nil
		},
		"vhObserve": func(e *Exec, _ *Frame, _ *ssa.Function, args []Value) Value {
			l, _ := e.strConst(args[0].(StrV))
			t := args[1].(*Term)
			if t.w == 0 {
				t = e.ctx.Ite(t, e.ctx.Const(64, 1), e.ctx.Const(64, 0))
			}
			e.observes = append(e.observes, obsRec{label: l, terms: []*Term{t}, lens: []int{-1}})
			return nil
		},
		"vhObserveBytes": func(e *Exec, _ *Frame, _ *ssa.Function, args []Value) Value {
			l, _ := e.strConst(args[0].(StrV))
			s := args[1].(SliceV)
			if s.b != nil && (s.b.opaque != "" || s.b.flt != nil) {
				e.observes = append(e.observes, obsRec{label: l, opaque: true})
				return nil
			}
			ts := e.sliceTerms(s)
			e.observes = append(e.observes, obsRec{label: l, terms: ts, lens: []int{len(ts)}})
			return nil
		},
		"vhSameBacking": func(e *Exec, _ *Frame, _ *ssa.Function, args []Value) Value {
			a, b := args[0].(SliceV), args[1].(SliceV)
			if a.b == nil || b.b == nil {
				return e.ctx.False
			}
			if len(a.b.cells) == 0 || len(b.b.cells) == 0 {
				return e.ctx.False
			}
			return e.ctx.Bool(&a.b.cells[0] == &b.b.cells[0] || a.b == b.b || sameStorage(a.b, b.b))
		},
		"vhYield": func(e *Exec, _ *Frame, _ *ssa.Function, _ []Value) Value {
			e.yield()
			return nil
		},
		"vhSyncPoint": func(e *Exec, _ *Frame, _ *ssa.Function, args []Value) Value {
			e.syncPoint(int(e.ConcInt(args[0].(*Term))))
			return nil
		},
		"vhQuiesce": func(e *Exec, _ *Frame, _ *ssa.Function, _ []Value) Value {
			e.quiesce()
			return e.i64(int64(e.liveLibThreads()))
		},
		"vhB2U": func(e *Exec, _ *Frame, _ *ssa.Function, args []Value) Value {
			return e.ctx.Ite(args[0].(*Term), e.ctx.Const(64, 1), e.ctx.Const(64, 0))
		},
		"vhEnvWait": func(e *Exec, _ *Frame, _ *ssa.Function, _ []Value) Value { return nil },
		"vhEnvDone": func(e *Exec, _ *Frame, _ *ssa.Function, args []Value) Value {
			k := int64(e.ConcInt(args[0].(*Term)))
			e.envTrace = append(e.envTrace, k)
			e.strace = append(e.strace, TraceEv{Role: "env", Code: k})
			return nil
		},
		"vhSkipNative": func(e *Exec, _ *Frame, _ *ssa.Function, _ []Value) Value { return nil },
		"vhThreadID": func(e *Exec, _ *Frame, _ *ssa.Function, _ []Value) Value {
			return e.i64(int64(e.ss.cur.id))
		},
		"vhEngine": func(e *Exec, _ *Frame, _ *ssa.Function, _ []Value) Value { return e.ctx.True },
	}
}

func sameStorage(a, b *Backing) bool {
	if cap(a.cells) == 0 || cap(b.cells) == 0 {
		return false
	}
	// views created by sliceToArrayPointer share underlying Go storage
	pa := &a.cells[:cap(a.cells)][cap(a.cells)-1]
	pb := &b.cells[:cap(b.cells)][cap(b.cells)-1]
	return pa == pb
}

func intrIdentity(e *Exec, _ *Frame, _ *ssa.Function, args []Value) Value { return args[0] }

// math.Trunc / Floor / Ceil (assembly on amd64): IEEE roundToIntegral (fp.go)
func intrFPRound(name string) intrinsicFn {
	return func(e *Exec, _ *Frame, _ *ssa.Function, args []Value) Value {
		return e.ctx.FP(name, 64, args[0].(*Term))
	}
}

func (e *Exec) opaqueStr(why string) StrV {
	b := e.newBacking(1, "opaque")
	b.cells[0] = e.ctx.Const(8, '?')
	b.opaque = why
	return StrV{b: b, off: e.i64(0), n: e.i64(1)}
}

func intrOpaqueString(e *Exec, _ *Frame, fn *ssa.Function, _ []Value) Value {
	return e.opaqueStr(fn.String())
}

// intrOpaqueBytes: a byte slice whose content is not modelled (reading it is "unsupported",
// which ends the path as inconclusive -- never as a pass).
func intrOpaqueBytes(e *Exec, _ *Frame, fn *ssa.Function, _ []Value) Value {
	s := e.opaqueStr(fn.String())
	return SliceV{b: s.b, off: s.off, n: s.n, cap: s.n}
}

func intrMakeNoZero(e *Exec, _ *Frame, _ *ssa.Function, args []Value) Value {
	n := int(e.ConcInt(args[0].(*Term)))
	b := e.newBacking(n, "make")
	for i := range b.cells {
		b.cells[i] = e.ctx.Const(8, 0)
	}
	return SliceV{b: b, off: e.i64(0), n: e.i64(int64(n)), cap: e.i64(int64(n))}
}

// ---- decimal formatting ----

var pow10 = func() [20]uint64 {
	var p [20]uint64
	p[0] = 1
	for i := 1; i < 20; i++ {
		p[i] = p[i-1] * 10
	}
	return p
}()

// decDigits renders an unsigned term in decimal, forking on the number of
// digits. Digit cells are (u / 10^k) % 10 + '0' and are registered so that
// strconv.ParseUint on exactly these cells returns u.
func (e *Exec) decDigits(u *Term) []*Term {
	c := e.ctx
	if u.IsConst() {
		s := fmt.Sprintf("%d", u.c)
		out := make([]*Term, len(s))
		for i := range s {
			out[i] = c.Const(8, uint64(s[i]))
		}
		return out
	}
	maxD := len(fmt.Sprintf("%d", u.ub))
	n := 1
	for n < maxD {
		if e.Branch(c.Cmp(OUlt, u, c.Const(u.w, pow10[n]))) {
			break
		}
		n++
	}
	out := make([]*Term, n)
	for k := 0; k < n; k++ {
		q := u
		if k > 0 {
			q = c.Bin(OUDiv, u, c.Const(u.w, pow10[k]))
		}
		var d *Term
		if k == n-1 && n == maxD && q.ub < 10 {
			d = q
		} else {
			d = c.Bin(OURem, q, c.Const(q.w, 10))
		}
		d8 := c.Extract(d, 7, 0)
		if d.w < 8 {
			d8 = c.ZExt(d, 8)
		}
		ch := c.Bin(OAdd, d8, c.Const(8, '0'))
		if _, ok := c.digit[ch]; !ok {
			c.digit[ch] = DigitInfo{v: u, k: k, n: n}
		}
		out[n-1-k] = ch
	}
	return out
}

// paddedDigits renders u with exactly W digits (zero padded) without forking
// on the digit count; the caller has established u < 10^W on this path.
func (e *Exec) paddedDigits(u *Term, W int) []*Term {
	c := e.ctx
	out := make([]*Term, W)
	for k := 0; k < W; k++ {
		q := u
		if k > 0 {
			q = c.Bin(OUDiv, u, c.Const(u.w, pow10[k]))
		}
		d := c.Bin(OURem, q, c.Const(q.w, 10))
		var d8 *Term
		if d.w < 8 {
			d8 = c.ZExt(d, 8)
		} else {
			d8 = c.Extract(d, 7, 0)
		}
		ch := c.Bin(OAdd, d8, c.Const(8, '0'))
		if !ch.IsConst() {
			if _, ok := c.digit[ch]; !ok {
				c.digit[ch] = DigitInfo{v: u, k: k, n: W}
			}
		}
		out[W-1-k] = ch
	}
	return out
}

// signedDigits returns (negative?, digits of |v|) for a signed term, forking on sign.
func (e *Exec) signedDigits(v *Term) (bool, []*Term) {
	c := e.ctx
	if e.Branch(c.Cmp(OSlt, v, c.Const(v.w, 0))) {
		return true, e.decDigits(c.Neg(v))
	}
	return false, e.decDigits(v)
}

func (e *Exec) fmtIntBase10(v *Term, signed bool) []*Term {
	if !signed {
		return e.decDigits(v)
	}
	neg, ds := e.signedDigits(v)
	if neg {
		return append([]*Term{e.ctx.Const(8, '-')}, ds...)
	}
	return ds
}

func (e *Exec) needBase10(base Value, fn string) {
	b := base.(*Term)
	if !b.IsConst() || b.c != 10 {
		e.unsupported("%s with base %v", fn, b)
	}
}

func intrAppendInt(e *Exec, _ *Frame, fn *ssa.Function, args []Value) Value {
	e.needBase10(args[2], "AppendInt")
	ds := e.fmtIntBase10(args[1].(*Term), true)
	return e.appendOp(args[0].(SliceV), e.bytesFromTerms(ds, "strconv"), nil)
}

func intrAppendUint(e *Exec, _ *Frame, fn *ssa.Function, args []Value) Value {
	e.needBase10(args[2], "AppendUint")
	ds := e.fmtIntBase10(args[1].(*Term), false)
	return e.appendOp(args[0].(SliceV), e.bytesFromTerms(ds, "strconv"), nil)
}

func intrFormatInt(e *Exec, _ *Frame, fn *ssa.Function, args []Value) Value {
	e.needBase10(args[1], "FormatInt")
	return e.strFromTerms(e.fmtIntBase10(args[0].(*Term), true), "strconv")
}

func intrFormatUint(e *Exec, _ *Frame, fn *ssa.Function, args []Value) Value {
	e.needBase10(args[1], "FormatUint")
	return e.strFromTerms(e.fmtIntBase10(args[0].(*Term), false), "strconv")
}

func intrItoa(e *Exec, _ *Frame, fn *ssa.Function, args []Value) Value {
	return e.strFromTerms(e.fmtIntBase10(args[0].(*Term), true), "strconv")
}

// ParseUint: on exactly the digit cells of a rendered value, the inverse
// contract applies; otherwise the real strconv code is executed.
func intrParseUint(e *Exec, caller *Frame, fn *ssa.Function, args []Value) Value {
	s := args[0].(StrV)
	base, bits := args[1].(*Term), args[2].(*Term)
	if base.IsConst() && base.c == 10 && bits.IsConst() && s.n.IsConst() && s.off.IsConst() && s.n.c > 0 && s.b != nil && s.b.opaque == "" {
		n := int(s.n.c)
		var v *Term
		ok := true
		// leading constant zeros (padding) do not change the value
		lead := 0
		for lead < n-1 {
			cell, isT := s.b.cells[int(s.off.c)+lead].(*Term)
			if !isT || !cell.IsConst() || cell.c != '0' {
				break
			}
			lead++
		}
		nd := n - lead
		for i := 0; i < nd && ok; i++ {
			cell, isT := s.b.cells[int(s.off.c)+lead+i].(*Term)
			if !isT {
				ok = false
				break
			}
			di, has := e.ctx.digit[cell]
			if !has || di.n != nd || di.k != nd-1-i || (v != nil && di.v != v) {
				ok = false
				break
			}
			v = di.v
		}
		if ok && v != nil {
			bs := int(bits.c)
			if bs == 0 {
				bs = 64
			}
			res := e.ctx.ZExt(v, 64)
			if v.w > bs {
				// range check against 2^bitSize-1
				lim := e.ctx.Const(v.w, mask(bs))
				if !e.Branch(e.ctx.Cmp(OUle, v, lim)) {
					// documented: the maximum value of the size and a *NumError wrapping ErrRange
					// (modelled as a non-nil error with that text; executing strconv's digit loop on
					// symbolic digits makes multiplication-heavy queries that time out)
					return TupleV{e.ctx.Const(64, mask(bs)), e.newErrorString(e.constStr("strconv.ParseUint: value out of range"))}
				}
			}
			return TupleV{res, IfaceV{}}
		}
	}
	return e.callSSA(caller, fn, args, nil)
}

// ---- floats: uninterpreted text with the documented round-trip contract ----

func intrAppendFloat(e *Exec, _ *Frame, fn *ssa.Function, args []Value) Value {
	dst := args[0].(SliceV)
	bits := args[1].(*Term)
	fmtc, prec, bitSize := args[2].(*Term), args[3].(*Term), args[4].(*Term)
	if !fmtc.IsConst() || !prec.IsConst() || !bitSize.IsConst() {
		e.unsupported("AppendFloat with symbolic format")
	}
	// the whole text is one abstract cell, a function of (value, format, precision, size)
	cell := e.ctx.UF("floattext", 8, bits, e.ctx.Const(8, fmtc.c), e.ctx.Const(64, prec.c), e.ctx.Const(8, bitSize.c))
	e.ctx.floatInfo[cell] = &FloatText{bits: bits, fmtc: byte(fmtc.c), prec: int(sext64(prec.c, 64)), bitSize: int(bitSize.c)}
	return e.appendOp(dst, e.bytesFromTerms([]*Term{cell}, "floattext"), nil)
}

// ParseFloat(text produced by AppendFloat(x, fmt, -1, bs), bs') returns x
// exactly when the shortest representation for bs is parsed at bs' = bs, or
// when x is exactly a float32.
func intrParseFloat(e *Exec, _ *Frame, fn *ssa.Function, args []Value) Value {
	s := args[0].(StrV)
	bs := args[1].(*Term)
	var ft *FloatText
	if s.b != nil && s.n.IsConst() && s.n.c == 1 && s.off.IsConst() {
		if cell, ok := s.b.cells[s.off.c].(*Term); ok {
			ft = e.ctx.floatInfo[cell]
		}
	}
	if ft == nil && bs.IsConst() {
		// decimal integer text as rendered by AppendInt/AppendUint/Itoa of a value v: ParseFloat is
		// correctly rounded, so the result is v converted to the size (round to nearest even)
		if neg, v, ok := e.intTextValue(s); ok {
			var f *Term
			if bs.c == 32 {
				f = e.ctx.FP("f32to64", 64, e.ctx.FP(fmt.Sprintf("fromui%d_32", v.w), 32, v))
			} else {
				f = e.ctx.FP(fmt.Sprintf("fromui%d_64", v.w), 64, v)
			}
			if neg {
				f = e.ctx.Bin(OXor, f, e.ctx.Const(64, 1<<63))
			}
			return TupleV{f, IfaceV{}}
		}
	}
	if ft == nil || !bs.IsConst() {
		e.unsupported("ParseFloat on text not produced by AppendFloat")
	}
	if ft.prec != -1 {
		e.unsupported("ParseFloat of non-shortest float text")
	}
	if ft.bits.op == OFP && ft.bits.name == "f32to64" && (bs.c == 32 || bs.c == 64) {
		// the value is exactly a float32: shortest text for either size parses back to it
		return TupleV{ft.bits, IfaceV{}}
	}
	if int(bs.c) == ft.bitSize {
		return TupleV{ft.bits, IfaceV{}}
	}
	if ft.bitSize == 64 && bs.c == 32 {
		return TupleV{e.ctx.FP("f32to64", 64, e.ctx.FP("f64to32", 32, ft.bits)), IfaceV{}}
	}
	return TupleV{e.ctx.UF("parse64of32text", 64, ft.bits), IfaceV{}}
}

// intTextValue recognises a string that is exactly the decimal rendering of one value: an
// optional constant '-' followed by all digit cells of v (no padding).
func (e *Exec) intTextValue(s StrV) (neg bool, v *Term, ok bool) {
	if s.b == nil || s.b.opaque != "" || !s.n.IsConst() || !s.off.IsConst() || s.n.c == 0 {
		return false, nil, false
	}
	off, n := int(s.off.c), int(s.n.c)
	if c0, isT := s.b.cells[off].(*Term); isT && c0.IsConst() && c0.c == '-' && n > 1 {
		neg = true
		off++
		n--
	}
	for i := 0; i < n; i++ {
		cell, isT := s.b.cells[off+i].(*Term)
		if !isT {
			return false, nil, false
		}
		di, has := e.ctx.digit[cell]
		if !has || di.n != n || di.k != n-1-i || (v != nil && di.v != v) {
			return false, nil, false
		}
		v = di.v
	}
	return neg, v, v != nil
}

// ---- fmt ----

type fmtSpec struct {
	verb     byte
	zero     bool
	minus    bool
	plus     bool
	space    bool
	sharp    bool
	width    int
	hasWidth bool
	prec     int
	hasPrec  bool
}

// formatPieces renders a constant format string with symbolic arguments.
// ok=false means some part is not modelled (result must be opaque).
func (e *Exec) sprintf(caller *Frame, format StrV, va Value) (out []*Term, ok bool) {
	f, isConst := e.strConst(format)
	if !isConst {
		return nil, false
	}
	var argv []IfaceV
	if sv, isS := va.(SliceV); isS && sv.b != nil {
		n := int(e.ConcInt(sv.n))
		for i := 0; i < n; i++ {
			argv = append(argv, e.loadIdx(sv.b, e.ctx.Bin(OAdd, sv.off, e.i64(int64(i)))).(IfaceV))
		}
	}
	c := e.ctx
	ai := 0
	for i := 0; i < len(f); i++ {
		if f[i] != '%' {
			out = append(out, c.Const(8, uint64(f[i])))
			continue
		}
		i++
		if i >= len(f) {
			return nil, false
		}
		if f[i] == '%' {
			out = append(out, c.Const(8, '%'))
			continue
		}
		var sp fmtSpec
	flags:
		for ; i < len(f); i++ {
			switch f[i] {
			case '0':
				sp.zero = true
			case '-':
				sp.minus = true
			case '+':
				sp.plus = true
			case ' ':
				sp.space = true
			case '#':
				sp.sharp = true
			default:
				break flags
			}
		}
		for ; i < len(f) && f[i] >= '0' && f[i] <= '9'; i++ {
			sp.width = sp.width*10 + int(f[i]-'0')
			sp.hasWidth = true
		}
		if i < len(f) && f[i] == '.' {
			i++
			sp.hasPrec = true
			for ; i < len(f) && f[i] >= '0' && f[i] <= '9'; i++ {
				sp.prec = sp.prec*10 + int(f[i]-'0')
			}
		}
		if i >= len(f) {
			return nil, false
		}
		sp.verb = f[i]
		if ai >= len(argv) {
			return nil, false
		}
		arg := argv[ai]
		ai++
		piece, pok := e.fmtArg(caller, sp, arg)
		if !pok {
			return nil, false
		}
		out = append(out, piece...)
	}
	if ai != len(argv) {
		return nil, false // %!(EXTRA ...) not modelled
	}
	return out, true
}

func (e *Exec) fmtArg(caller *Frame, sp fmtSpec, arg IfaceV) ([]*Term, bool) {
	c := e.ctx
	if arg.t == nil {
		return nil, false
	}
	if sp.plus || sp.space || sp.sharp || sp.minus {
		return nil, false
	}
	// Stringer / error for %v %s
	if sp.verb == 'v' || sp.verb == 's' {
		for _, mname := range []string{"Error", "String"} {
			if m := e.findMethod(arg.t, mname); m != nil {
				sig := m.Signature
				if sig.Params().Len() == 0 && sig.Results().Len() == 1 && isStringType(sig.Results().At(0).Type()) {
					r := e.call(caller, m, []Value{arg.v})
					s := r.(StrV)
					if s.b != nil && s.b.opaque != "" {
						return nil, false
					}
					return e.padStr(sp, e.sliceTerms(e.strAsSlice(s))), true
				}
			}
		}
	}
	switch u := arg.t.Underlying().(type) {
	case *types.Basic:
		switch {
		case u.Info()&types.IsInteger != 0:
			if sp.verb != 'd' && sp.verb != 'v' {
				return nil, false
			}
			v := arg.v.(*Term)
			signed := isSignedBasic(u)
			neg := false
			var ds []*Term
			// zero padding to a fixed number of digits: no fork on the digit count
			padW := 0
			if sp.hasPrec {
				padW = sp.prec
			} else if sp.zero && sp.hasWidth {
				padW = sp.width
			}
			mag := v
			if signed && !v.IsConst() {
				if e.Branch(c.Cmp(OSlt, v, c.Const(v.w, 0))) {
					neg = true
					mag = c.Neg(v)
					if !sp.hasPrec {
						padW--
					}
				}
			} else if signed && v.IsConst() && sext64(v.c, v.w) < 0 {
				neg = true
				mag = c.Neg(v)
				if !sp.hasPrec {
					padW--
				}
			}
			usePad := false
			if padW >= 1 && padW <= 19 && !mag.IsConst() {
				if pow10[padW] > mask(mag.w) || pow10[padW] > mag.ub {
					usePad = true // always fits
				} else {
					usePad = e.Branch(c.Cmp(OUlt, mag, c.Const(mag.w, pow10[padW])))
				}
			}
			if usePad {
				ds = e.paddedDigits(mag, padW)
			} else {
				ds = e.decDigits(mag)
			}
			// precision: minimum digits
			if sp.hasPrec {
				for len(ds) < sp.prec {
					ds = append([]*Term{c.Const(8, '0')}, ds...)
				}
				if sp.prec == 0 && len(ds) == 1 {
					// %.0d of 0 prints nothing; value-dependent: not modelled
					return nil, false
				}
			}
			total := len(ds)
			if neg {
				total++
			}
			var out []*Term
			if sp.hasWidth && total < sp.width {
				pad := sp.width - total
				if sp.zero && !sp.hasPrec {
					if neg {
						out = append(out, c.Const(8, '-'))
					}
					for i := 0; i < pad; i++ {
						out = append(out, c.Const(8, '0'))
					}
					return append(out, ds...), true
				}
				for i := 0; i < pad; i++ {
					out = append(out, c.Const(8, ' '))
				}
			}
			if neg {
				out = append(out, c.Const(8, '-'))
			}
			return append(out, ds...), true
		case u.Info()&types.IsString != 0:
			if sp.verb != 's' && sp.verb != 'v' {
				return nil, false
			}
			s := arg.v.(StrV)
			if s.b != nil && s.b.opaque != "" {
				return nil, false
			}
			return e.padStr(sp, e.sliceTerms(e.strAsSlice(s))), true
		}
	case *types.Slice:
		if b, ok := u.Elem().Underlying().(*types.Basic); ok && b.Kind() == types.Uint8 && sp.verb == 's' {
			s := arg.v.(SliceV)
			if s.b != nil && s.b.opaque != "" {
				return nil, false
			}
			return e.padStr(sp, e.sliceTerms(s)), true
		}
	}
	return nil, false
}

func (e *Exec) padStr(sp fmtSpec, ts []*Term) []*Term {
	if sp.hasPrec && len(ts) > sp.prec {
		ts = ts[:sp.prec]
	}
	if sp.hasWidth && len(ts) < sp.width {
		pad := make([]*Term, sp.width-len(ts))
		for i := range pad {
			pad[i] = e.ctx.Const(8, ' ')
		}
		ts = append(pad, ts...)
	}
	return ts
}

func intrSprintf(e *Exec, caller *Frame, fn *ssa.Function, args []Value) Value {
	ts, ok := e.sprintf(caller, args[0].(StrV), args[1])
	if !ok {
		return e.opaqueStr("fmt.Sprintf with unmodelled verb/operand")
	}
	return e.strFromTerms(ts, "fmt")
}

func intrFprintf(e *Exec, caller *Frame, fn *ssa.Function, args []Value) Value {
	w := args[0].(IfaceV)
	ts, ok := e.sprintf(caller, args[1].(StrV), args[2])
	var data SliceV
	if ok {
		data = e.bytesFromTerms(ts, "fmt")
	} else {
		s := e.opaqueStr("fmt.Fprintf with unmodelled verb/operand")
		data = e.strAsSlice(s)
	}
	if w.t == nil {
		e.rtPanic("nil", "Fprintf to nil writer")
	}
	m := e.findMethod(w.t, "Write")
	if m == nil {
		e.unsupported("Fprintf: no Write method on %v", w.t)
	}
	return e.call(caller, m, []Value{w.v, data})
}

func (e *Exec) newErrorString(s StrV) IfaceV {
	cell := new(Value)
	*cell = StructV{s}
	return IfaceV{t: e.P.errorStringPtr, v: PtrV{cell: cell}}
}

func intrErrorf(e *Exec, caller *Frame, fn *ssa.Function, args []Value) Value {
	// The text of error values is never the subject of a property: opaque,
	// but a distinct non-nil error object.
	return e.newErrorString(e.opaqueStr("fmt.Errorf text"))
}

// ---- strings / bytes ----

func (e *Exec) indexByte(s SliceV, ch *Term) *Term {
	if s.b == nil {
		return e.i64(-1)
	}
	n := int(e.ConcInt(s.n))
	for i := 0; i < n; i++ {
		cell := e.sliceElem(s, i)
		if ft := e.ctx.floatInfo[cell]; ft != nil {
			// abstract float text: only the presence of an exponent marker is known
			if ch.IsConst() && (ch.c == 'e' || ch.c == 'E') {
				if (ft.fmtc == 'e' || ft.fmtc == 'E') && byte(ch.c) == ft.fmtc {
					return e.i64(int64(i))
				}
				if ft.fmtc == 'f' || ft.fmtc == 'e' || ft.fmtc == 'E' {
					continue
				}
			}
			e.unsupported("IndexByte on float text")
		}
		if e.Branch(e.ctx.Eq(cell, ch)) {
			return e.i64(int64(i))
		}
	}
	return e.i64(-1)
}

func intrIndexByteStr(e *Exec, _ *Frame, _ *ssa.Function, args []Value) Value {
	return e.indexByte(e.strAsSlice(args[0].(StrV)), args[1].(*Term))
}

func intrIndexByteBytes(e *Exec, _ *Frame, _ *ssa.Function, args []Value) Value {
	return e.indexByte(args[0].(SliceV), args[1].(*Term))
}

func (e *Exec) matchAt(s SliceV, i int, sep []*Term) *Term {
	r := e.ctx.True
	for j := range sep {
		r = e.ctx.BAnd(r, e.ctx.Eq(e.sliceElem(s, i+j), sep[j]))
	}
	return r
}

func (e *Exec) indexStr(s, sep StrV) int {
	st := e.strAsSlice(s)
	sp := e.sliceTerms(e.strAsSlice(sep))
	n := int(e.ConcInt(s.n))
	if len(sp) == 0 {
		return 0
	}
	for i := 0; i+len(sp) <= n; i++ {
		if e.Branch(e.matchAt(st, i, sp)) {
			return i
		}
	}
	return -1
}

func intrIndexStr(e *Exec, _ *Frame, _ *ssa.Function, args []Value) Value {
	return e.i64(int64(e.indexStr(args[0].(StrV), args[1].(StrV))))
}

func intrContainsStr(e *Exec, _ *Frame, _ *ssa.Function, args []Value) Value {
	return e.ctx.Bool(e.indexStr(args[0].(StrV), args[1].(StrV)) >= 0)
}

// strings.genSplit(s, sep, sepSave, n)
func intrGenSplit(e *Exec, _ *Frame, _ *ssa.Function, args []Value) Value {
	s, sep := args[0].(StrV), args[1].(StrV)
	sepSave := int(e.ConcInt(args[2].(*Term)))
	n := int(e.ConcInt(args[3].(*Term)))
	if n == 0 {
		return SliceV{off: e.i64(0), n: e.i64(0), cap: e.i64(0)}
	}
	sp := e.sliceTerms(e.strAsSlice(sep))
	if len(sp) == 0 {
		e.unsupported("strings.Split with empty separator")
	}
	if s.b != nil && s.b.opaque != "" {
		e.unsupported("strings.Split on opaque string")
	}
	ln := int(e.ConcInt(s.n))
	st := e.strAsSlice(s)
	var parts []Value
	start := 0
	i := 0
	for i+len(sp) <= ln {
		if n > 0 && len(parts) == n-1 {
			break
		}
		if e.Branch(e.matchAt(st, i, sp)) {
			parts = append(parts, StrV{b: s.b, off: e.ctx.Bin(OAdd, s.off, e.i64(int64(start))), n: e.i64(int64(i + sepSave - start))})
			i += len(sp)
			start = i
		} else {
			i++
		}
	}
	parts = append(parts, StrV{b: s.b, off: e.ctx.Bin(OAdd, s.off, e.i64(int64(start))), n: e.i64(int64(ln - start))})
	b := e.newBacking(len(parts), "split")
	copy(b.cells, parts)
	k := e.i64(int64(len(parts)))
	return SliceV{b: b, off: e.i64(0), n: k, cap: k}
}

func (e *Exec) asciiOnly(t *Term, what string) {
	if !e.Branch(e.ctx.Cmp(OUlt, t, e.ctx.Const(8, 0x80))) {
		e.unsupported("%s on non-ASCII byte", what)
	}
}

func intrToLower(e *Exec, _ *Frame, _ *ssa.Function, args []Value) Value {
	s := args[0].(StrV)
	ts := e.sliceTerms(e.strAsSlice(s))
	c := e.ctx
	out := make([]*Term, len(ts))
	for i, t := range ts {
		e.asciiOnly(t, "strings.ToLower")
		isUp := c.BAnd(c.Cmp(OUle, c.Const(8, 'A'), t), c.Cmp(OUle, t, c.Const(8, 'Z')))
		out[i] = c.Ite(isUp, c.Bin(OAdd, t, c.Const(8, 32)), t)
	}
	return e.strFromTerms(out, "tolower")
}

func (e *Exec) isSpace(t *Term) *Term {
	c := e.ctx
	// '\t', '\n', '\v', '\f', '\r', ' '
	return c.BOr(c.Eq(t, c.Const(8, ' ')), c.BAnd(c.Cmp(OUle, c.Const(8, 9), t), c.Cmp(OUle, t, c.Const(8, 13))))
}

func intrTrimSpace(e *Exec, _ *Frame, _ *ssa.Function, args []Value) Value {
	s := args[0].(StrV)
	n := int(e.ConcInt(s.n))
	st := e.strAsSlice(s)
	lo, hi := 0, n
	for lo < hi {
		t := e.sliceElem(st, lo)
		e.asciiOnly(t, "strings.TrimSpace")
		if !e.Branch(e.isSpace(t)) {
			break
		}
		lo++
	}
	for hi > lo {
		t := e.sliceElem(st, hi-1)
		e.asciiOnly(t, "strings.TrimSpace")
		if !e.Branch(e.isSpace(t)) {
			break
		}
		hi--
	}
	return StrV{b: s.b, off: e.ctx.Bin(OAdd, s.off, e.i64(int64(lo))), n: e.i64(int64(hi - lo))}
}

func intrJoin(e *Exec, _ *Frame, _ *ssa.Function, args []Value) Value {
	elems, sep := args[0].(SliceV), args[1].(StrV)
	n := 0
	if elems.b != nil {
		n = int(e.ConcInt(elems.n))
	}
	var out []*Term
	sp := e.sliceTerms(e.strAsSlice(sep))
	for i := 0; i < n; i++ {
		if i > 0 {
			out = append(out, sp...)
		}
		s := e.loadIdx(elems.b, e.ctx.Bin(OAdd, elems.off, e.i64(int64(i)))).(StrV)
		if s.b != nil && s.b.opaque != "" {
			return e.opaqueStr("join of opaque")
		}
		out = append(out, e.sliceTerms(e.strAsSlice(s))...)
	}
	return e.strFromTerms(out, "join")
}

func intrTrimRight(e *Exec, _ *Frame, _ *ssa.Function, args []Value) Value {
	s := args[0].(SliceV)
	cut := e.sliceTerms(e.strAsSlice(args[1].(StrV)))
	if s.b == nil {
		return s
	}
	n := int(e.ConcInt(s.n))
	for n > 0 {
		t := e.sliceElem(s, n-1)
		m := e.ctx.False
		for _, c := range cut {
			m = e.ctx.BOr(m, e.ctx.Eq(t, c))
		}
		if !e.Branch(m) {
			break
		}
		n--
	}
	if n == 0 {
		// bytes.TrimRight returns nil when everything was trimmed
		return SliceV{off: e.i64(0), n: e.i64(0), cap: e.i64(0)}
	}
	return SliceV{b: s.b, off: s.off, n: e.i64(int64(n)), cap: s.cap}
}

func intrBytesCompare(e *Exec, _ *Frame, _ *ssa.Function, args []Value) Value {
	return e.bytesCompare(args[0].(SliceV), args[1].(SliceV))
}

func intrBytesEqual(e *Exec, _ *Frame, _ *ssa.Function, args []Value) Value {
	a, b := args[0].(SliceV), args[1].(SliceV)
	return e.strEq(StrV{b: a.b, off: a.off, n: a.n}, StrV{b: b.b, off: b.off, n: b.n})
}

// ---- sync ----

func intrOnceDo(e *Exec, caller *Frame, _ *ssa.Function, args []Value) Value {
	p := args[0].(PtrV)
	if p.cell == nil {
		e.rtPanic("nil", "nil *sync.Once")
	}
	e.onceDo(p.cell, args[1], caller)
	return nil
}

// sync.Map: an association list per Map variable, keys compared as interface values (dynamic type
// and value; symbolic string / integer keys are compared by the solver like the keys of a builtin map).
var anyType = types.NewInterfaceType(nil, nil)

func (e *Exec) syncMap(v Value) *MapObj {
	cell := syncCell(e, v, "*sync.Map")
	m := e.ss.smaps[cell]
	if m == nil {
		e.nextObj++
		m = &MapObj{kt: anyType, vt: anyType, id: e.nextObj}
		e.ss.smaps[cell] = m
	}
	return m
}

func intrSyncMapLoad(e *Exec, _ *Frame, _ *ssa.Function, args []Value) Value {
	m := e.syncMap(args[0])
	if i := e.mapFind(m, args[1]); i >= 0 {
		return TupleV{e.copyVal(m.vals[i]), e.ctx.True}
	}
	return TupleV{IfaceV{}, e.ctx.False}
}

func intrSyncMapStore(e *Exec, _ *Frame, _ *ssa.Function, args []Value) Value {
	e.mapUpdate(e.syncMap(args[0]), args[1], args[2])
	return nil
}

func intrSyncMapLoadOrStore(e *Exec, _ *Frame, _ *ssa.Function, args []Value) Value {
	m := e.syncMap(args[0])
	if i := e.mapFind(m, args[1]); i >= 0 {
		return TupleV{e.copyVal(m.vals[i]), e.ctx.True}
	}
	m.keys = append(m.keys, e.copyVal(args[1]))
	m.vals = append(m.vals, e.copyVal(args[2]))
	return TupleV{args[2], e.ctx.False}
}

func intrSyncMapLoadAndDelete(e *Exec, _ *Frame, _ *ssa.Function, args []Value) Value {
	m := e.syncMap(args[0])
	if i := e.mapFind(m, args[1]); i >= 0 {
		v := m.vals[i]
		m.keys = append(m.keys[:i:i], m.keys[i+1:]...)
		m.vals = append(m.vals[:i:i], m.vals[i+1:]...)
		return TupleV{v, e.ctx.True}
	}
	return TupleV{IfaceV{}, e.ctx.False}
}

func intrSyncMapDelete(e *Exec, _ *Frame, _ *ssa.Function, args []Value) Value {
	e.mapDelete(e.syncMap(args[0]), args[1])
	return nil
}

func intrSyncMapRange(e *Exec, caller *Frame, _ *ssa.Function, args []Value) Value {
	m := e.syncMap(args[0])
	keys := append([]Value{}, m.keys...)
	vals := append([]Value{}, m.vals...)
	for i := range keys {
		r := e.call(caller, args[1], []Value{e.copyVal(keys[i]), e.copyVal(vals[i])})
		if t, ok := r.(*Term); ok && !e.Branch(t) {
			break
		}
	}
	return nil
}

// sync.Pool: a LIFO free list per Pool variable. Get hands back the value put last (what the
// per-P private slot of the real pool does for a goroutine that puts and gets in turn), otherwise
// calls New. The real pool may also drop values (GC) -- then Get is New(), the behaviour of the
// empty list, which every path passes through first.
func intrPoolGet(e *Exec, caller *Frame, fn *ssa.Function, args []Value) Value {
	cell := syncCell(e, args[0], "*sync.Pool")
	if st := e.ss.pools[cell]; len(st) > 0 {
		v := st[len(st)-1]
		e.ss.pools[cell] = st[:len(st)-1]
		return v
	}
	sv, ok := (*cell).(StructV)
	if !ok {
		e.unsupported("sync.Pool value %T", *cell)
	}
	pt := fn.Signature.Recv().Type().(*types.Pointer).Elem().Underlying().(*types.Struct)
	for i := 0; i < pt.NumFields(); i++ {
		if pt.Field(i).Name() == "New" {
			if _, isNil := sv[i].(FuncNil); isNil || sv[i] == nil {
				return IfaceV{}
			}
			return e.call(caller, sv[i], nil)
		}
	}
	return IfaceV{}
}

func intrPoolPut(e *Exec, _ *Frame, _ *ssa.Function, args []Value) Value {
	cell := syncCell(e, args[0], "*sync.Pool")
	if iv, ok := args[1].(IfaceV); ok && iv.t == nil {
		return nil // Put(nil) is ignored
	}
	e.ss.pools[cell] = append(e.ss.pools[cell], args[1])
	return nil
}

// sync.WaitGroup and sync.(RW)Mutex: counters / locks keyed by the variable's address; Wait and Lock
// are blocking visible operations of the scheduler (RLock is treated as an exclusive lock: fewer
// interleavings, never a spurious one).
func syncCell(e *Exec, v Value, what string) *Value {
	p, ok := v.(PtrV)
	if !ok || p.cell == nil {
		e.rtPanic("nil", "nil "+what)
	}
	return p.cell
}

func intrWGAdd(e *Exec, _ *Frame, _ *ssa.Function, args []Value) Value {
	e.wgAdd(syncCell(e, args[0], "*sync.WaitGroup"), e.ConcInt(args[1].(*Term)))
	return nil
}

func intrWGDone(e *Exec, _ *Frame, _ *ssa.Function, args []Value) Value {
	e.wgAdd(syncCell(e, args[0], "*sync.WaitGroup"), -1)
	return nil
}

func intrWGWait(e *Exec, _ *Frame, _ *ssa.Function, args []Value) Value {
	e.wgWait(syncCell(e, args[0], "*sync.WaitGroup"))
	return nil
}

func intrMuLock(e *Exec, _ *Frame, _ *ssa.Function, args []Value) Value {
	e.muLock(syncCell(e, args[0], "*sync.Mutex"))
	return nil
}

func intrMuUnlock(e *Exec, _ *Frame, _ *ssa.Function, args []Value) Value {
	e.muUnlock(syncCell(e, args[0], "*sync.Mutex"))
	return nil
}

func intrAtomicValueStore(e *Exec, _ *Frame, _ *ssa.Function, args []Value) Value {
	p := args[0].(PtrV)
	v := args[1].(IfaceV)
	if v.t == nil {
		e.rtPanic("explicit", "sync/atomic: store of nil value into Value")
	}
	st := (*p.cell).(StructV)
	if old, ok := st[0].(IfaceV); ok && old.t != nil && !types.Identical(old.t, v.t) {
		e.rtPanic("explicit", "sync/atomic: store of inconsistently typed value into Value")
	}
	st[0] = IfaceV{t: v.t, v: e.copyVal(v.v)}
	e.atomicSync(p.cell)
	return nil
}

func intrAtomicValueLoad(e *Exec, _ *Frame, _ *ssa.Function, args []Value) Value {
	p := args[0].(PtrV)
	st := (*p.cell).(StructV)
	v, _ := st[0].(IfaceV)
	e.atomicSync(p.cell)
	return IfaceV{t: v.t, v: e.copyVal(v.v)}
}

// ---- time: abstract instants; calendar fields are uninterpreted ----
// time.Time is {wall uint64, ext int64, loc *Location}; we keep the seconds
// in ext and a zone tag in wall (0 = UTC as produced by Unix(), 1 = Local, 2 = UTC()).

func intrTimeUnix(e *Exec, _ *Frame, fn *ssa.Function, args []Value) Value {
	sec := args[0].(*Term)
	z := e.zero(fn.Signature.Results().At(0).Type()).(StructV)
	z[0] = e.ctx.Const(64, 1) // time.Unix returns a Time in Local
	z[1] = sec
	return z
}

func intrTimeLocal(e *Exec, _ *Frame, _ *ssa.Function, args []Value) Value {
	t := e.copyVal(args[0]).(StructV)
	t[0] = e.ctx.Const(64, 1)
	return t
}

// time.Now: an arbitrary instant (zone tag 9: "wall clock", never equal to a decoded instant's tag).
func intrTimeNow(e *Exec, _ *Frame, fn *ssa.Function, _ []Value) Value {
	z := e.zero(fn.Signature.Results().At(0).Type()).(StructV)
	z[0] = e.ctx.Const(64, 9)
	z[1] = e.newVar(64, "v")
	return z
}

// (Time).Zone: abbreviation and offset in force at that instant: unknown text, arbitrary offset.
func intrTimeZone(e *Exec, _ *Frame, _ *ssa.Function, _ []Value) Value {
	return TupleV{e.opaqueStr("time zone abbreviation"), e.newVar(64, "v")}
}

// time.FixedZone: a Location that is neither Local nor UTC (zone tag 3).
func intrTimeFixedZone(e *Exec, _ *Frame, _ *ssa.Function, _ []Value) Value {
	cell := new(Value)
	*cell = StructV{e.ctx.Const(64, 3)}
	return PtrV{cell: cell}
}

// (Time).In(loc): the instant in loc; Local and UTC are the two known locations, any other one is
// a different zone (calendar fields are uninterpreted functions of (zone tag, instant)).
func intrTimeIn(e *Exec, _ *Frame, _ *ssa.Function, args []Value) Value {
	t := e.copyVal(args[0]).(StructV)
	loc := args[1].(PtrV)
	tag := uint64(3)
	switch {
	case loc.cell != nil && loc.cell == e.timeLocs["Local"]:
		tag = 1
	case loc.cell != nil && loc.cell == e.timeLocs["UTC"]:
		tag = 2
	case loc.IsNil():
		e.rtPanic("explicit", "time: missing Location in call to Time.In")
	}
	t[0] = e.ctx.Const(64, tag)
	return t
}

func intrTimeUTC(e *Exec, _ *Frame, _ *ssa.Function, args []Value) Value {
	t := e.copyVal(args[0]).(StructV)
	t[0] = e.ctx.Const(64, 2)
	return t
}

func (e *Exec) timeField(t StructV, name string, lo, hi uint64) *Term {
	zone := t[0].(*Term)
	sec := t[1].(*Term)
	f := e.ctx.UF("time_"+name, 64, zone, sec)
	// documented range of the field
	rng := e.ctx.BAnd(e.ctx.Cmp(OUle, e.ctx.Const(64, lo), f), e.ctx.Cmp(OUle, f, e.ctx.Const(64, hi)))
	e.addPC(rng)
	return f
}

func intrTimeDate(e *Exec, _ *Frame, _ *ssa.Function, args []Value) Value {
	t := args[0].(StructV)
	return TupleV{e.timeField(t, "year", 1900, 9999), e.timeField(t, "month", 1, 12), e.timeField(t, "day", 1, 31)}
}

func intrTimeClock(e *Exec, _ *Frame, _ *ssa.Function, args []Value) Value {
	t := args[0].(StructV)
	return TupleV{e.timeField(t, "hour", 0, 23), e.timeField(t, "minute", 0, 59), e.timeField(t, "second", 0, 59)}
}

var _ = math.MaxInt64
var _ = strings.Contains

// findMethod looks up an exported method of a dynamic type (nil if absent).
func (e *Exec) findMethod(t types.Type, name string) *ssa.Function {
	sel := e.P.prog.MethodSets.MethodSet(t).Lookup(nil, name)
	if sel == nil {
		return nil
	}
	return e.P.prog.MethodValue(sel)
}

// The MySQL driver and its TCP connection are replaced by the harness's
// scripted connection (DESIGN.md appendix E): NewDumpConn and the DumpConn
// methods delegate to vhModelDumpConn / (*vConn).<method> in the harness.
func intrNewDumpConn(e *Exec, caller *Frame, fn *ssa.Function, args []Value) Value {
	h := e.P.harnessFunc("vhModelDumpConn")
	if h == nil {
		e.unsupported("mysql.NewDumpConn without a scripted connection (vhModelDumpConn)")
	}
	r := e.call(caller, h, args).(TupleV)
	return r
}

func intrDumpConnMethod(e *Exec, caller *Frame, fn *ssa.Function, args []Value) Value {
	sp := e.P.pkgs[repoModule]
	var m *ssa.Function
	if sp != nil {
		if t := sp.Type("vConn"); t != nil {
			m = e.P.prog.LookupMethod(types.NewPointer(t.Type()), sp.Pkg, fn.Name())
			if m == nil {
				sel := e.P.prog.MethodSets.MethodSet(types.NewPointer(t.Type())).Lookup(sp.Pkg, fn.Name())
				if sel != nil {
					m = e.P.prog.MethodValue(sel)
				}
			}
		}
	}
	if m == nil {
		e.unsupported("scripted connection has no method %s", fn.Name())
	}
	return e.call(caller, m, args)
}
