package main

// Persistent SMT solver process (z3 -in, or cvc5 --incremental) driven over
// pipes.  One Solver per worker; one solver "session" per explored path:
// BeginPath resets, terms are defined incrementally, the path condition is
// asserted permanently, queries are push/assert/check-sat/pop.

import (
	"bufio"
	"fmt"
	"io"
	"os/exec"
	"strconv"
	"strings"
	"time"
)

type Result int

const (
	Sat Result = iota
	Unsat
	Unknown
)

func (r Result) String() string { return [...]string{"sat", "unsat", "unknown"}[r] }

type SolverStats struct {
	Sat, Unsat, Unknown int
	Errors              int
	Time                time.Duration
}

type Solver struct {
	kind      string // "z3", "z3-new", "cvc5"
	cmd       *exec.Cmd
	in        io.WriteCloser
	out       *bufio.Reader
	timeoutMs int
	defined   map[int]bool
	declared  map[string]bool
	stats     SolverStats
	buf       strings.Builder
	dead      bool
	lastErr   string
	log       io.Writer
}

func NewSolver(kind string, timeoutMs int) (*Solver, error) {
	s := &Solver{kind: kind, timeoutMs: timeoutMs}
	if err := s.start(); err != nil {
		return nil, err
	}
	return s, nil
}

func (s *Solver) start() error {
	var cmd *exec.Cmd
	switch s.kind {
	case "z3":
		cmd = exec.Command("z3", "-in", "-smt2")
	case "z3-new":
		cmd = exec.Command("z3-new", "-in", "-smt2")
	case "cvc5":
		cmd = exec.Command("cvc5", "--incremental", "--lang=smt2", "--produce-models",
			fmt.Sprintf("--tlimit-per=%d", s.timeoutMs))
	case "cvc5-int":
		cmd = exec.Command("cvc5", "--incremental", "--lang=smt2", "--produce-models", "--solve-bv-as-int=sum",
			fmt.Sprintf("--tlimit-per=%d", s.timeoutMs))
	default:
		return fmt.Errorf("unknown solver %q", s.kind)
	}
	in, err := cmd.StdinPipe()
	if err != nil {
		return err
	}
	out, err := cmd.StdoutPipe()
	if err != nil {
		return err
	}
	cmd.Stderr = nil
	if err := cmd.Start(); err != nil {
		return err
	}
	s.cmd, s.in, s.out = cmd, in, bufio.NewReaderSize(out, 1<<16)
	s.dead = false
	s.preamble()
	return nil
}

func (s *Solver) preamble() {
	if strings.HasPrefix(s.kind, "z3") {
		fmt.Fprintf(&s.buf, "(set-option :timeout %d)\n", s.timeoutMs)
	} else {
		s.buf.WriteString("(set-logic ALL)\n")
	}
	s.defined = map[int]bool{}
	s.declared = map[string]bool{}
}

func (s *Solver) Close() {
	if s.cmd != nil {
		s.in.Close()
		s.cmd.Process.Kill()
		s.cmd.Wait()
		s.cmd = nil
	}
}

func (s *Solver) restart() {
	s.Close()
	s.buf.Reset()
	s.start()
}

// BeginPath forgets everything from the previous path.
func (s *Solver) BeginPath() {
	if s.dead {
		s.restart()
		return
	}
	s.buf.WriteString("(reset)\n")
	s.preamble()
}

func (s *Solver) define(ctx *Ctx, t *Term) {
	switch t.op {
	case OConst:
		return
	case OVar:
		if !s.declared[t.name] {
			s.declared[t.name] = true
			fmt.Fprintf(&s.buf, "(declare-const %s %s)\n", t.name, sortStr(t.w))
		}
		return
	}
	if s.defined[t.id] {
		return
	}
	// iterative post-order to avoid deep recursion
	type fr struct {
		t *Term
		i int
	}
	st := []fr{{t, 0}}
	for len(st) > 0 {
		top := &st[len(st)-1]
		if top.i < len(top.t.a) {
			ch := top.t.a[top.i]
			top.i++
			if ch.op == OConst {
				continue
			}
			if ch.op == OVar {
				if !s.declared[ch.name] {
					s.declared[ch.name] = true
					fmt.Fprintf(&s.buf, "(declare-const %s %s)\n", ch.name, sortStr(ch.w))
				}
				continue
			}
			if !s.defined[ch.id] {
				st = append(st, fr{ch, 0})
			}
			continue
		}
		x := top.t
		st = st[:len(st)-1]
		if s.defined[x.id] {
			continue
		}
		s.defined[x.id] = true
		if x.op == OUF && !s.declared["uf:"+x.name] {
			s.declared["uf:"+x.name] = true
			var sb strings.Builder
			for _, a := range x.a {
				sb.WriteString(sortStr(a.w) + " ")
			}
			fmt.Fprintf(&s.buf, "(declare-fun %s (%s) %s)\n", x.name, sb.String(), sortStr(x.w))
		}
		fmt.Fprintf(&s.buf, "(define-fun t%d () %s %s)\n", x.id, sortStr(x.w), smtDef(x))
	}
}

// Assert adds t permanently to the current path's context.
func (s *Solver) Assert(ctx *Ctx, t *Term) {
	s.define(ctx, t)
	fmt.Fprintf(&s.buf, "(assert %s)\n", smtRef(t))
}

func (s *Solver) flush() error {
	if s.buf.Len() == 0 {
		return nil
	}
	if s.log != nil {
		io.WriteString(s.log, s.buf.String())
	}
	_, err := io.WriteString(s.in, s.buf.String())
	s.buf.Reset()
	return err
}

func (s *Solver) readResult() (Result, bool) {
	hadErr := false
	for {
		line, err := s.out.ReadString('\n')
		if err != nil {
			s.dead = true
			s.lastErr = "solver died: " + err.Error()
			return Unknown, true
		}
		line = strings.TrimSpace(line)
		switch {
		case line == "sat":
			return Sat, hadErr
		case line == "unsat":
			return Unsat, hadErr
		case line == "unknown" || line == "timeout":
			return Unknown, hadErr
		case strings.HasPrefix(line, "(error"):
			hadErr = true
			s.lastErr = line
			// cvc5 prints an error instead of a result for some failures
			if strings.Contains(line, "interrupted by timeout") {
				return Unknown, false
			}
		case line == "":
		default:
			// unexpected noise (e.g. unsupported warnings)
			if strings.HasPrefix(line, "unsupported") {
				hadErr = true
				s.lastErr = line
			}
		}
	}
}

// Check asks whether (path context ∧ extra...) is satisfiable.  When
// wantModel is set and the answer is sat, the values of vars are returned.
func (s *Solver) Check(ctx *Ctx, extra []*Term, wantModel bool, vars []*Term) (Result, Model) {
	start := time.Now()
	defer func() { s.stats.Time += time.Since(start) }()
	for _, t := range extra {
		s.define(ctx, t)
	}
	if wantModel {
		for _, v := range vars {
			s.define(ctx, v)
		}
	}
	s.buf.WriteString("(push 1)\n")
	for _, t := range extra {
		fmt.Fprintf(&s.buf, "(assert %s)\n", smtRef(t))
	}
	s.buf.WriteString("(check-sat)\n")
	if err := s.flush(); err != nil {
		s.dead = true
		s.stats.Unknown++
		return Unknown, nil
	}
	res, hadErr := s.readResult()
	if hadErr {
		s.stats.Errors++
		res = Unknown
	}
	var model Model
	if res == Sat && wantModel && len(vars) > 0 {
		model = s.getValues(vars)
		if model == nil {
			res = Unknown
		}
	}
	s.buf.WriteString("(pop 1)\n")
	switch res {
	case Sat:
		s.stats.Sat++
	case Unsat:
		s.stats.Unsat++
	default:
		s.stats.Unknown++
		if s.dead {
			s.restartKeepNothing()
		}
	}
	return res, model
}

func (s *Solver) restartKeepNothing() {
	// the path context is lost; the caller must treat the rest of this
	// path as inconclusive (dead flag stays set until BeginPath).
}

func (s *Solver) getValues(vars []*Term) Model {
	var sb strings.Builder
	sb.WriteString("(get-value (")
	for _, v := range vars {
		sb.WriteString(smtRef(v) + " ")
	}
	sb.WriteString("))\n")
	s.buf.WriteString(sb.String())
	if err := s.flush(); err != nil {
		s.dead = true
		return nil
	}
	// read a balanced s-expression
	depth := 0
	started := false
	var txt strings.Builder
	for {
		r, _, err := s.out.ReadRune()
		if err != nil {
			s.dead = true
			return nil
		}
		txt.WriteRune(r)
		if r == '(' {
			depth++
			started = true
		} else if r == ')' {
			depth--
		}
		if started && depth == 0 {
			break
		}
	}
	str := txt.String()
	if strings.Contains(str, "(error") {
		s.lastErr = str
		return nil
	}
	m := Model{}
	// entries look like (name #x.. ) or (name #b..) or (name true)
	toks := tokenize(str)
	for i := 0; i+1 < len(toks); i++ {
		if toks[i] == "(" && i+3 < len(toks) && toks[i+3] == ")" {
			name, val := toks[i+1], toks[i+2]
			if v, ok := parseSMTValue(val); ok {
				m[name] = v
			}
		} else if toks[i] == "(" && i+7 < len(toks) && toks[i+2] == "(" && toks[i+3] == "_" && strings.HasPrefix(toks[i+4], "bv") {
			// (name (_ bvN w))
			v, err := strconv.ParseUint(toks[i+4][2:], 10, 64)
			if err == nil {
				m[toks[i+1]] = v
			}
		}
	}
	for _, v := range vars {
		if _, ok := m[smtRef(v)]; !ok {
			return nil
		}
	}
	return m
}

func tokenize(s string) []string {
	var toks []string
	cur := strings.Builder{}
	flush := func() {
		if cur.Len() > 0 {
			toks = append(toks, cur.String())
			cur.Reset()
		}
	}
	for _, r := range s {
		switch r {
		case '(', ')':
			flush()
			toks = append(toks, string(r))
		case ' ', '\n', '\t', '\r':
			flush()
		default:
			cur.WriteRune(r)
		}
	}
	flush()
	return toks
}

func parseSMTValue(v string) (uint64, bool) {
	switch {
	case v == "true":
		return 1, true
	case v == "false":
		return 0, true
	case strings.HasPrefix(v, "#x"):
		x, err := strconv.ParseUint(v[2:], 16, 64)
		return x, err == nil
	case strings.HasPrefix(v, "#b"):
		x, err := strconv.ParseUint(v[2:], 2, 64)
		return x, err == nil
	}
	return 0, false
}
