package main

// Happens-before race monitor (vector clocks) for the goroutine tier.
//
// Every engine thread carries a vector clock.  Edges follow the Go memory model:
// go statement (parent -> child), channel send -> matching receive, unbuffered
// receive -> completion of the send, close -> receive that observes the close,
// completion of a sync.Once function -> return of every later Do, release ->
// acquire on sync objects (model context, atomic.Value).  The k-th receive ->
// (k+C)-th send edge of buffered channels is NOT modelled (fewer edges can only
// add reports; /repo's only buffered channel is sent to once).
//
// Monitored accesses: loads and stores executed by LIBRARY code (a frame whose
// nearest /repo function is not a harness function) once a second thread
// exists.  Two accesses to the same cell from different threads, at least one a
// write, not ordered by happens-before, are a data race: an obligation failure
// of C05.  This also justifies treating the code between visible operations as
// atomic in the exploration.

import (
	"fmt"
	"strings"

	"golang.org/x/tools/go/ssa"
)

type vclock []int32

func (v vclock) get(i int) int32 {
	if i < len(v) {
		return v[i]
	}
	return 0
}

func (v vclock) clone() vclock { return append(vclock(nil), v...) }

func vcJoin(a, b vclock) vclock {
	if len(b) > len(a) {
		a = append(a, make(vclock, len(b)-len(a))...)
	}
	for i, x := range b {
		if x > a[i] {
			a[i] = x
		}
	}
	return a
}

func (t *ThreadX) tick() {
	for len(t.vc) <= t.id {
		t.vc = append(t.vc, 0)
	}
	t.vc[t.id]++
}

// release: the current state of t becomes visible to whoever later acquires *dst.
func (t *ThreadX) releaseTo(dst *vclock) {
	*dst = vcJoin(*dst, t.vc)
	t.tick()
}

func (t *ThreadX) acquireFrom(src vclock) { t.vc = vcJoin(t.vc, src) }

type accessRec struct {
	tid  int
	clk  int32
	site string
}

type shadowCell struct {
	w     accessRec
	hasW  bool
	reads []accessRec
}

type raceState struct {
	shadow map[*Value]*shadowCell
	syncVC map[int]*vclock
	atomVC map[*Value]*vclock
	active bool
}

func newRaceState() *raceState {
	return &raceState{shadow: map[*Value]*shadowCell{}, syncVC: map[int]*vclock{}, atomVC: map[*Value]*vclock{}}
}

func (e *Exec) instrSite(fr *Frame, instr ssa.Instruction) string {
	p := e.P.prog.Fset.Position(instr.Pos())
	file := p.Filename
	if i := strings.LastIndex(file, "/"); i >= 0 {
		file = file[i+1:]
	}
	if file == "" {
		return fr.fn.String()
	}
	return fmt.Sprintf("%s:%d", file, p.Line)
}

// raceAccess records a load (write=false) or store (write=true) through p.
func (e *Exec) raceAccess(fr *Frame, p PtrV, write bool, instr ssa.Instruction) {
	ss := e.ss
	if ss == nil || ss.race == nil || !ss.race.active || !fr.lib {
		return
	}
	var key *Value
	switch {
	case p.cell != nil:
		key = p.cell
	case p.b != nil && p.idx != nil && p.idx.IsConst() && p.idx.c < uint64(len(p.b.cells)):
		key = &p.b.cells[p.idx.c]
	default:
		return
	}
	t := ss.cur
	e.raceChecks++
	sc := ss.race.shadow[key]
	if sc == nil {
		sc = &shadowCell{}
		ss.race.shadow[key] = sc
	}
	my := t.vc.get(t.id)
	conflict := func(a accessRec) bool { return a.tid != t.id && a.clk > t.vc.get(a.tid) }
	kind := "read"
	if write {
		kind = "write"
	}
	if sc.hasW && conflict(sc.w) {
		site := e.instrSite(fr, instr)
		e.failNoPanic("race", fmt.Sprintf("data race: %s at %s is not ordered with the write at %s", kind, site, sc.w.site), site)
	}
	if write {
		for _, r := range sc.reads {
			if conflict(r) {
				site := e.instrSite(fr, instr)
				e.failNoPanic("race", fmt.Sprintf("data race: write at %s is not ordered with the read at %s", site, r.site), site)
			}
		}
		sc.w, sc.hasW = accessRec{t.id, my, e.instrSite(fr, instr)}, true
		sc.reads = sc.reads[:0]
		return
	}
	for i := range sc.reads {
		if sc.reads[i].tid == t.id {
			sc.reads[i].clk = my
			return
		}
	}
	sc.reads = append(sc.reads, accessRec{t.id, my, e.instrSite(fr, instr)})
}

// atomicSync: an atomic access both acquires and releases the cell's clock
// (sequentially consistent atomics).
func (e *Exec) atomicSync(cell *Value) {
	ss := e.ss
	if ss == nil || ss.race == nil || ss.cur == nil {
		return
	}
	vc := ss.race.atomVC[cell]
	if vc == nil {
		vc = new(vclock)
		ss.race.atomVC[cell] = vc
	}
	ss.cur.acquireFrom(*vc)
	ss.cur.releaseTo(vc)
}
