package main

import (
	"encoding/json"
	"go/ast"
	"go/parser"
	"go/token"
	"os"
	"path/filepath"
	"sort"
	"strings"
)

// Registry of exploration roots per property and tier, with the bounds and
// assumptions reported in the evidence.

func allProps() []string {
	return []string{"C01", "C02", "C03", "C04", "C05", "C06", "C07", "C08", "C09", "C10",
		"C11", "C12", "C13", "C14", "C15", "C16", "C17", "C18", "C19", "C20"}
}

func rng(lo, hi int) []int {
	var r []int
	for i := lo; i <= hi; i++ {
		r = append(r, i)
	}
	return r
}

func rootsFor(prop, tier string) []Root {
	thorough := tier == "thorough"
	var rs []Root
	add := func(h string, params ...int) {
		rs = append(rs, Root{Prop: prop, Harness: h, Params: append([]int{}, params...)})
	}
	switch prop {
	case "C10":
		for _, t := range []int{1, 2, 9, 3, 8} { // TINY SHORT INT24 LONG LONGLONG
			add("VH_C10_Int", t, 0)
			add("VH_C10_Int", t, 1)
		}
		add("VH_C10_Float", 0)
		add("VH_C10_Float", 1)
		rs = append(rs, Root{Prop: prop, Harness: "VH_C10_RowSign", Params: []int{3}, MaxDecs: 3000})
		// a 70-column table: signedness beyond the 64th column (flags and values of columns 63, 64, 69 free)
		rs = append(rs, Root{Prop: prop, Harness: "VH_C10_RowSign", Params: []int{70}, MaxDecs: 6000, MaxSteps: 30000000})
		if thorough {
			rs = append(rs, Root{Prop: prop, Harness: "VH_C10_RowSign", Params: []int{4}, MaxDecs: 4000})
		}
		add("VH_C10_Year")
		add("VH_C10_Bit")
		for _, via := range []int{0, 1} {
			add("VH_C10_Enum", via, 1)
			add("VH_C10_Enum", via, 2)
			for sz := 1; sz <= 8; sz++ {
				add("VH_C10_Set", via, sz)
			}
		}
	case "C11":
		for p := 1; p <= 65; p++ {
			maxs := p
			if maxs > 30 {
				maxs = 30
			}
			for sc := 0; sc <= maxs; sc++ {
				if !thorough {
					// quick: p <= 20 and the group-boundary precisions
					edge := p == 27 || p == 28 || p == 36 || p == 37 || p == 45 || p == 46 || p == 64 || p == 65
					if p > 20 && !edge {
						continue
					}
					if p > 20 && sc != 0 && sc != 1 && sc != 9 && sc != 10 && sc != 18 && sc != maxs {
						continue
					}
				}
				add("VH_C11_Decimal", p, sc)
			}
		}
	case "C12":
		add("VH_C12_Date", 10)
		add("VH_C12_Date", 14)
		add("VH_C12_TimeOld")
		add("VH_C12_DateTimeOld")
		add("VH_C12_TimestampOld")
		for dec := 0; dec <= 6; dec++ {
			add("VH_C12_Timestamp2", dec)
			add("VH_C12_DateTime2", dec)
			add("VH_C12_Time2", dec)
		}
	case "C13":
		add("VH_C13_Marks", 2)
		add("VH_C13_Marks", 3)
		if thorough {
			add("VH_C13_Marks", 4)
		}
		for _, t := range []int{15, 253, 254, 249, 250, 251, 252, 255} {
			add("VH_C13_Str", t, 40)
			add("VH_C13_Str", t, 300)
			if thorough {
				add("VH_C13_Str", t, 1200)
			}
			if t == 15 || t == 252 {
				// the longest VARCHAR / a blob beyond 64 KB: 65,535- resp. 70,000-byte values fit the buffer
				rs = append(rs, Root{Prop: prop, Harness: "VH_C13_Str", Params: []int{t, 70010}, MaxSteps: 400000000})
			}
		}
	case "C01":
		for cfg := 0; cfg < 16; cfg++ {
			if cfg&2 != 0 && cfg&4 == 0 {
				continue // v2 row events never come with 4-byte table ids
			}
			if thorough || cfg == 0 || cfg == 5 || cfg == 7 || cfg == 15 {
				rs = append(rs, Root{Prop: prop, Harness: "VH_C01_History", Params: []int{cfg, 1}, MaxDecs: 4000, MaxSteps: 40000000})
			}
			if thorough || cfg == 0 || cfg == 7 || cfg == 13 || cfg == 4 {
				rs = append(rs, Root{Prop: prop, Harness: "VH_C01_History", Params: []int{cfg, 0}, MaxDecs: 4000, MaxSteps: 40000000})
			}
			if thorough || cfg == 5 || cfg == 14 {
				rs = append(rs, Root{Prop: prop, Harness: "VH_C01_History", Params: []int{cfg, 3}, MaxDecs: 6000, MaxSteps: 60000000, LibPrio: true})
			}
			if thorough || cfg == 1 || cfg == 7 || cfg == 12 {
				rs = append(rs, Root{Prop: prop, Harness: "VH_C01_History", Params: []int{cfg, 2}, MaxDecs: 4000, MaxSteps: 40000000})
			}
		}
	case "C02":
		big := func(h string, p ...int) {
			rs = append(rs, Root{Prop: prop, Harness: h, Params: p, MaxDecs: 2000, MaxSteps: 20000000})
		}
		big("VH_C02_Grouping", 1, 0)
		big("VH_C02_Grouping", 2, 0)
		big("VH_C02_Grouping", 1, 1)
		big("VH_C02_Grouping", 1, 2)
		if thorough {
			big("VH_C02_Grouping", 3, 0)
			big("VH_C02_Grouping", 2, 1)
		}
		for kw := 0; kw < 12; kw++ {
			add("VH_C02_Category", kw, 0)
			add("VH_C02_Category", kw, 4)
		}
	case "C04":
		for f := 0; f < 10; f++ {
			rs = append(rs, Root{Prop: prop, Harness: "VH_C04_Exit", Params: []int{1, f}, MaxDecs: 2000})
			if thorough || f == 0 || f == 2 {
				rs = append(rs, Root{Prop: prop, Harness: "VH_C04_Exit", Params: []int{2, f}, MaxDecs: 2000})
			}
			// (three-unit histories were tried for every fault kind: the nine roots did not finish within 2.5 h on 8 workers)
			if f == 0 {
				// one unknown statement at an arbitrary position, also inside the transaction
				rs = append(rs, Root{Prop: prop, Harness: "VH_C04_ExitIns", Params: []int{1, f, 1}, MaxDecs: 2000})
			}
		}
		// Stream-level half: write-back of the position, the next attempt's dump request, exactly-once over attempts
		rs = append(rs, Root{Prop: prop, Harness: "VH_C07_Attempts", Params: []int{1, 0}, MaxDecs: 6000, MaxSteps: 30000000})
		// pacing "master far ahead" (the whole log sits in the connection's buffer): library-priority schedules
		rs = append(rs, Root{Prop: prop, Harness: "VH_C07_Attempts", Params: []int{1, 1}, MaxDecs: 6000, MaxSteps: 30000000, LibPrio: true})
		if thorough {
			rs = append(rs, Root{Prop: prop, Harness: "VH_C07_Attempts", Params: []int{2, 0}, MaxDecs: 8000, MaxSteps: 60000000})
		}
	case "C03":
		add("VH_C03_RealOffsets")
		add("VH_C03_RealRotate", 0)
		add("VH_C03_RealRotate", 1)
		rs = append(rs, Root{Prop: prop, Harness: "VH_C03_Resume", Params: []int{1}, MaxDecs: 2000})
		rs = append(rs, Root{Prop: prop, Harness: "VH_C03_Resume", Params: []int{2}, MaxDecs: 2000})
		if thorough {
			rs = append(rs, Root{Prop: prop, Harness: "VH_C03_Resume", Params: []int{3}, MaxDecs: 3000})
		}
		rs = append(rs, Root{Prop: prop, Harness: "VH_C03_Labels", Params: []int{1}, MaxDecs: 2000})
		rs = append(rs, Root{Prop: prop, Harness: "VH_C03_Labels", Params: []int{2}, MaxDecs: 2000})
		rs = append(rs, Root{Prop: prop, Harness: "VH_C03_OpenRotate", MaxDecs: 2000})
		if thorough {
			rs = append(rs, Root{Prop: prop, Harness: "VH_C03_Labels", Params: []int{3}, MaxDecs: 2000})
		}
	case "C05", "C06":
		// a master error whose message is long enough to look like any fixed text
		rs = append(rs, Root{Prop: prop, Harness: "VH_C05_Stream", Params: []int{2, 0, 0, 2}, MaxDecs: 4000, MaxSteps: 30000000})
		// a STOP_EVENT earlier in the stream, then a master error / a lost connection
		rs = append(rs, Root{Prop: prop, Harness: "VH_C05_Stream", Params: []int{2, 1, 0, 3}, MaxDecs: 4000, MaxSteps: 30000000})
		rs = append(rs, Root{Prop: prop, Harness: "VH_C05_Stream", Params: []int{3, 1, 0, 3}, MaxDecs: 4000, MaxSteps: 30000000})
		npk := []int{0, 1, 2}
		if thorough {
			npk = []int{0, 1, 2, 3}
		}
		// the caller cancels while the connection is being established
		rs = append(rs, Root{Prop: prop, Harness: "VH_C05_Stream", Params: []int{12, 1, 0, 0}, MaxDecs: 4000, MaxSteps: 30000000})
		// the handler rejects the (empty) delivery of a rolled-back transaction
		rs = append(rs, Root{Prop: prop, Harness: "VH_C05_Stream", Params: []int{4, 1, 0, 4}, MaxDecs: 4000, MaxSteps: 30000000})
		rs = append(rs, Root{Prop: prop, Harness: "VH_C05_Stream", Params: []int{11, 1, 0, 4}, MaxDecs: 4000, MaxSteps: 30000000})
		if prop == "C06" {
			// the reason EACH attempt ended is reported for that attempt (cancel, then a master error ...)
			rs = append(rs, Root{Prop: prop, Harness: "VH_C07_Attempts", Params: []int{1, 0}, MaxDecs: 6000, MaxSteps: 30000000})
		}
		for cause := 0; cause < 12; cause++ {
			for _, n := range npk {
				for ahead := 0; ahead < 2; ahead++ {
					if cause >= 5 && cause <= 7 && (n != 1 || ahead != 0) {
						continue // handshake failures: no packets flow
					}
					if (cause == 4 || cause == 10 || cause == 11) && n == 0 {
						continue // no transaction, hence no handler failure and no stop cause
					}
					if !thorough && n == 2 && ahead == 1 && cause != 4 {
						continue
					}
					rs = append(rs, Root{Prop: prop, Harness: "VH_C05_Stream", Params: []int{cause, n, ahead, 0}, MaxDecs: 4000, MaxSteps: 30000000})
					if n >= 1 && (thorough || ahead == 0) {
						// handler that is still running while the rest of the system moves on (yields inside the call)
						rs = append(rs, Root{Prop: prop, Harness: "VH_C05_Stream", Params: []int{cause, n, ahead, 1}, MaxDecs: 4000, MaxSteps: 30000000})
					}
				}
			}
		}
	case "C07":
		for _, nl := range []int{0, 1, 10} {
			rs = append(rs, Root{Prop: prop, Harness: "VH_C07_Handshake", Params: []int{nl}, MaxDecs: 4000})
		}
		// the position a later attempt resumes from names exactly the file rotated to (CRC32 events)
		add("VH_C03_RealRotate", 1)
		// the master refuses the checksum announcement (ERR packet, any code): no dump request follows
		rs = append(rs, Root{Prop: prop, Harness: "VH_C05_Stream", Params: []int{6, 1, 0, 0}, MaxDecs: 4000, MaxSteps: 30000000})
		rs = append(rs, Root{Prop: prop, Harness: "VH_C07_Attempts", Params: []int{1, 0}, MaxDecs: 6000, MaxSteps: 30000000})
		// pacing "master far ahead" (the whole log sits in the connection's buffer): library-priority schedules
		rs = append(rs, Root{Prop: prop, Harness: "VH_C07_Attempts", Params: []int{1, 1}, MaxDecs: 6000, MaxSteps: 30000000, LibPrio: true})
		if thorough {
			rs = append(rs, Root{Prop: prop, Harness: "VH_C07_Attempts", Params: []int{2, 0}, MaxDecs: 8000, MaxSteps: 60000000})
		}
	case "C08":
		for _, p := range [][2]int{{20, 20}, {32, 8}, {8, 32}} {
			add("VH_C08_Transport", p[0], p[1])
		}
		// packets around the driver's buffer sizes (4096 default, 262144 largest cached)
		for _, n := range []int{4096, 4097, 258048, 258050, 262143, 262144, 262145} {
			rs = append(rs, Root{Prop: prop, Harness: "VH_C08_TransportBig", Params: []int{n}, MaxSteps: 60000000})
		}
		if thorough {
			add("VH_C08_Transport", 4100, 60)
			add("VH_C08_Transport", 60, 4100)
		}
		for sh := 0; sh < 27; sh++ {
			add("VH_C08_Scribble", sh, 0)
			add("VH_C08_Scribble", sh, 1)
		}
		for st := 0; st < 6; st++ {
			rs = append(rs, Root{Prop: prop, Harness: "VH_C08_Row", Params: []int{st}, MaxDecs: 3000})
		}
		for _, st := range []int{2, 5} {
			rs = append(rs, Root{Prop: prop, Harness: "VH_C08_Update", Params: []int{st}, MaxDecs: 4000})
		}
		add("VH_C08_Absent")
		if thorough {
			rs = append(rs, Root{Prop: prop, Harness: "VH_C08_Update", Params: []int{3}, MaxDecs: 4000})
		}
		rs = append(rs, Root{Prop: prop, Harness: "VH_C08_Retain", Params: []int{2}, MaxDecs: 2000, MaxSteps: 20000000})
		// real events through the real reader and Stream; the handler keeps everything and re-reads it at the end
		rs = append(rs, Root{Prop: prop, Harness: "VH_C01_History", Params: []int{1, 4}, MaxDecs: 6000, MaxSteps: 60000000, LibPrio: true})
		rs = append(rs, Root{Prop: prop, Harness: "VH_C01_History", Params: []int{6, 4}, MaxDecs: 6000, MaxSteps: 60000000, LibPrio: true})
		if thorough {
			rs = append(rs, Root{Prop: prop, Harness: "VH_C08_Retain", Params: []int{3}, MaxDecs: 2000, MaxSteps: 20000000})
		}
	case "C09":
		for _, t := range []int{1, 2, 3, 4, 5, 7, 8, 9, 10, 11, 12, 13, 14, 15, 16, 17, 18, 19, 245, 247, 248, 249, 250, 251, 252, 253, 254, 255} {
			add("VH_C09_LenAgree", t)
		}
		for kind := 0; kind < 3; kind++ {
			for _, ver := range []int{1, 2} {
				for _, w := range []int{4, 6} {
					if ver == 2 && w == 4 {
						continue // 4-byte table ids predate v2 row events (MySQL < 5.1.4): not a real configuration
					}
					if !thorough && ver == 1 && w == 6 {
						continue
					}
					shapes := []int{0, 4}
					if thorough {
						shapes = []int{0, 1, 2, 3, 4, 5}
					}
					for _, sh := range shapes {
						ex := 0
						if ver == 2 && w == 6 {
							ex = 5
						}
						rs = append(rs, Root{Prop: prop, Harness: "VH_C09_Rows", Params: []int{kind, ver, w, sh, ex}, MaxDecs: 4000})
					}
				}
			}
		}
		// 300 columns: UPDATE v2 and WRITE v1
		rs = append(rs, Root{Prop: prop, Harness: "VH_C09_Rows", Params: []int{1, 2, 6, 6, 0}, MaxDecs: 8000, MaxSteps: 60000000})
		rs = append(rs, Root{Prop: prop, Harness: "VH_C09_Rows", Params: []int{0, 1, 6, 6, 0}, MaxDecs: 8000, MaxSteps: 60000000})
		if !thorough {
			rs = append(rs, Root{Prop: prop, Harness: "VH_C09_Rows", Params: []int{1, 2, 6, 1, 3}, MaxDecs: 4000})
			rs = append(rs, Root{Prop: prop, Harness: "VH_C09_Rows", Params: []int{0, 2, 6, 2, 0}, MaxDecs: 4000})
			rs = append(rs, Root{Prop: prop, Harness: "VH_C09_Rows", Params: []int{2, 1, 6, 3, 0}, MaxDecs: 4000})
			rs = append(rs, Root{Prop: prop, Harness: "VH_C09_Rows", Params: []int{1, 1, 4, 5, 0}, MaxDecs: 4000})
		}
		// NEWDECIMAL: length agreement is part of the C11 harness (concrete (p,s), symbolic bytes)
		for p := 1; p <= 65; p++ {
			for sc := 0; sc <= p && sc <= 30; sc++ {
				if !thorough {
					pe := p == 1 || p == 9 || p == 10 || p == 18 || p == 19 || p == 28 || p == 65
					se := sc == 0 || sc == 1 || sc == 9 || sc == 10 || sc == p || sc == 30
					if !(pe && se) {
						continue
					}
				}
				add("VH_C11_Decimal", p, sc)
			}
		}
	case "C14":
		for k := 2; k < 15; k++ {
			for pos := 0; pos < 3; pos++ {
				for lg := 0; lg < 2; lg++ {
					if k == 14 && pos == 2 {
						continue
					}
					add("VH_C14_Scalar", k, pos, lg)
				}
			}
		}
		for n := 1; n <= 5; n++ {
			add("VH_C14_VarLen", n, 0)
			add("VH_C14_VarLen", n, 3)
		}
		for _, n := range []int{127, 128, 129, 256} {
			rs = append(rs, Root{Prop: prop, Harness: "VH_C14_LongString", Params: []int{n, 0, 0}, MaxDecs: 3000, MaxSteps: 20000000})
			rs = append(rs, Root{Prop: prop, Harness: "VH_C14_LongString", Params: []int{n, 1, 1}, MaxDecs: 3000, MaxSteps: 20000000})
		}
		// documents beyond 64 KB: only the large format can hold them (array element / object member of 70,000 bytes)
		rs = append(rs, Root{Prop: prop, Harness: "VH_C14_LongString", Params: []int{70000, 1, 1}, MaxDecs: 40000, MaxSteps: 2000000000})
		rs = append(rs, Root{Prop: prop, Harness: "VH_C14_LongString", Params: []int{70000, 2, 1}, MaxDecs: 40000, MaxSteps: 2000000000})
		rs = append(rs, Root{Prop: prop, Harness: "VH_C14_LongString", Params: []int{70000, 3, 1}, MaxDecs: 40000, MaxSteps: 2000000000})
		rs = append(rs, Root{Prop: prop, Harness: "VH_C14_LongString", Params: []int{70000, 4, 1}, MaxDecs: 40000, MaxSteps: 2000000000})
		rs = append(rs, Root{Prop: prop, Harness: "VH_C14_LongString", Params: []int{300, 3, 0}, MaxDecs: 40000, MaxSteps: 200000000})
		// small format with offsets beyond 32767 (a 40,000-byte string in front of two out-of-line values)
		rs = append(rs, Root{Prop: prop, Harness: "VH_C14_LongString", Params: []int{40000, 3, 0}, MaxDecs: 40000, MaxSteps: 2000000000})
		if thorough {
			for _, n := range []int{255, 384, 16383, 16384} {
				rs = append(rs, Root{Prop: prop, Harness: "VH_C14_LongString", Params: []int{n, 2, 0}, MaxDecs: 40000, MaxSteps: 400000000})
			}

		}
		for lg := 0; lg < 2; lg++ {
			rs = append(rs, Root{Prop: prop, Harness: "VH_C14_Struct", Params: []int{1, lg}, MaxDecs: 3000})
			rs = append(rs, Root{Prop: prop, Harness: "VH_C14_Struct", Params: []int{2, lg}, MaxDecs: 3000})
			// depth 3 (and 4, 5): fan-out <= 2 at the top level, <= 1 below
			rs = append(rs, Root{Prop: prop, Harness: "VH_C14_Struct", Params: []int{3, lg}, MaxDecs: 6000})
			if thorough {
				rs = append(rs, Root{Prop: prop, Harness: "VH_C14_Struct", Params: []int{4, lg}, MaxDecs: 8000})
				rs = append(rs, Root{Prop: prop, Harness: "VH_C14_Struct", Params: []int{5, lg}, MaxDecs: 12000})
			}
		}
		// every nested container in a storage format of its own (2: large top level, 3: small top level)
		// (fan-out <= 1 below the top level; 4, 5: the same with fan-out <= 2)
		for _, lg := range []int{2, 3} {
			rs = append(rs, Root{Prop: prop, Harness: "VH_C14_Struct", Params: []int{2, lg}, MaxDecs: 6000})
			if thorough {
				rs = append(rs, Root{Prop: prop, Harness: "VH_C14_Struct", Params: []int{2, lg + 2}, MaxDecs: 6000})
				rs = append(rs, Root{Prop: prop, Harness: "VH_C14_Struct", Params: []int{3, lg}, MaxDecs: 12000})
			}
		}
	case "C15":
		// attribution by ordinal in partial images (names, types, NULL / absent marks): the C13 row harness
		rs = append(rs, Root{Prop: prop, Harness: "VH_C13_Marks", Params: []int{3}})
		for sh := 0; sh < 2; sh++ {
			rs = append(rs, Root{Prop: prop, Harness: "VH_C15_Cache", Params: []int{sh}, MaxDecs: 2000})
		}
		if thorough {
			rs = append(rs, Root{Prop: prop, Harness: "VH_C15_Cache", Params: []int{2}, MaxDecs: 2000})
		}
		rs = append(rs, Root{Prop: prop, Harness: "VH_C15_Recount", Params: []int{1}, MaxDecs: 2000})
		rs = append(rs, Root{Prop: prop, Harness: "VH_C15_Recount", Params: []int{2}, MaxDecs: 2000})
		if thorough {
			rs = append(rs, Root{Prop: prop, Harness: "VH_C15_Recount", Params: []int{3}, MaxDecs: 2000})
		}
		for _, w := range []int{4, 6} {
			add("VH_C15_TableMap", w, 1, 1, 1, 0)
			add("VH_C15_TableMap", w, 2, 3, 5, 0)
			add("VH_C15_TableMap", w, 2, 0, 1, 3)
			add("VH_C15_TableMap", w, 1, 255, 255, 8)
			for _, n := range []int{250, 251, 252, 256, 300} {
				add("VH_C15_TableMapWide", w, n)
			}
			// metadata blocks of 250, 252 and 280 bytes (125, 126, 140 VARCHAR columns)
			for _, n := range []int{1125, 1126, 1140} {
				add("VH_C15_TableMapWide", w, n)
			}
			if thorough {
				add("VH_C15_TableMap", w, 3, 2, 2, 1)
				add("VH_C15_TableMapWide", w, 255)
				add("VH_C15_TableMapWide", w, 257)
				add("VH_C15_TableMapWide", w, 600)
			}
		}
	case "C16":
		for _, vl := range []int{0, 5, 50} {
			add("VH_C16_Format", vl, 27)
			add("VH_C16_Format", vl, 38)
			if thorough {
				add("VH_C16_Format", vl, 165)
				add("VH_C16_Format", vl, 255)
			}
		}
		for cs := 0; cs < 3; cs++ {
			for fl := 0; fl < 2; fl++ {
				for _, nl := range []int{0, 1, 16} {
					add("VH_C16_Rotate", nl, cs, fl)
				}
				sqls := []int{0, 5}
				dbs := []int{0, 3}
				if thorough {
					sqls = []int{0, 1, 5, 70000}
					dbs = []int{0, 1, 3, 255}
				}
				for _, dl := range dbs {
					for _, sl := range sqls {
						add("VH_C16_Query", dl, sl, cs, fl)
					}
				}
				if !thorough {
					add("VH_C16_Query", 255, 5, cs, fl) // the longest database name
				}
			}
			add("VH_C16_IntVarRand", 0, cs)
			add("VH_C16_IntVarRand", 1, cs)
		}
	case "C18":
		kmax := 3
		if thorough {
			kmax = 5
		}
		for k := 0; k <= kmax; k++ {
			add("VH_C18_Add", k, 0)
			add("VH_C18_Add", k, 1)
			add("VH_C18_ContainsGTID", k)
		}
		k2 := 2
		if thorough {
			k2 = 3
		}
		for a := 0; a <= k2; a++ {
			for b := 0; b <= k2; b++ {
				for ex := 0; ex < 3; ex++ {
					add("VH_C18_Contains", a, b, ex)
				}
				for ex := 0; ex < 4; ex++ {
					if a+b > 5 {
						continue // Equal(3,3,*): z3 and cvc5 answer unknown within 120 s (measured), not registered
					}
					add("VH_C18_Equal", a, b, ex)
				}
			}
		}
		for k := 1; k <= 2; k++ {
			add("VH_C18_AddTwice", k, 0)
			add("VH_C18_AddTwice", k, 2)
		}
		if thorough {
			add("VH_C18_AddTwice", 3, 2)
		}
		add("VH_C18_SIDOrder", 2)
		if thorough {
			add("VH_C18_SIDOrder", 3)
		}
		add("VH_C18_AddSeq", 2)
		add("VH_C18_AddSeq", 3)
		if thorough {
			add("VH_C18_AddSeq", 4)
			add("VH_C18_AddSeq", 5)
		}
	case "C19":
		for via := 0; via < 3; via++ {
			add("VH_C19_Mysql56RT", via)
		}
		for w := 0; w < 3; w++ {
			add("VH_C19_MariaRT", w, 0)
			add("VH_C19_MariaRT", w, 1)
		}
		nmax := 2
		if thorough {
			nmax = 3
		}
		for a := 0; a <= nmax; a++ {
			for b := 0; b <= nmax; b++ {
				if a+b == 0 {
					continue
				}
				if !thorough && a+b > 3 {
					continue
				}
				add("VH_C19_SetText", a, b, 0)
				add("VH_C19_SIDBlock", a, b)
			}
		}
		add("VH_C19_SetText", 1, 1, 1)
		add("VH_C19_SIDBlock", 0, 0)
		for k := 0; k < 3; k++ {
			add("VH_C19_Events", k)
		}
		for n := 0; n <= 3; n++ {
			if n >= 1 && n <= 2 {
				add("VH_C19_MariaSetText", n)
			}
			add("VH_C19_MariaAdd", n)
			add("VH_C19_MariaContains", n)
			if n <= 2 {
				add("VH_C19_MariaFork", n)
			}
		}
	case "C20":
		for sh := 0; sh < 8; sh++ {
			rs = append(rs, Root{Prop: prop, Harness: "VH_C20_Marshal", Params: []int{sh}, MaxDecs: 4000})
		}
		add("VH_C20_Names")
	case "C17":
		rs = append(rs, Root{Prop: prop, Harness: "VH_C17_Gate", Params: []int{1}, MaxDecs: 2000})
		rs = append(rs, Root{Prop: prop, Harness: "VH_C17_Gate", Params: []int{2}, MaxDecs: 2000})
		for _, n := range []int{0, 1, 4, 5, 18, 19, 20, 40} {
			for where := 0; where < 3; where++ {
				add("VH_C17_Real", n, where)
			}
		}
		// the same through the real connection path (reader goroutine, readBinlogEvent, hand-off)
		for _, n := range []int{0, 1, 3, 4, 18, 20} {
			rs = append(rs, Root{Prop: prop, Harness: "VH_C17_Conn", Params: []int{n, n % 2}, MaxDecs: 4000})
		}
		hi := 64
		if thorough {
			hi = 300
		}
		for _, n := range rng(0, hi) {
			add("VH_C17_IsValid", n)
		}
	}
	return rs
}

// boundsFor reads the stated bounds of a property/tier from /verif/bounds.json (kept next to the
// registry above; the roots actually explored are listed in the evidence as root_list_head / roots).
func boundsFor(prop, tier string) map[string]interface{} {
	out := map[string]interface{}{}
	data, err := os.ReadFile(filepath.Join(verifDir, "bounds.json"))
	if err != nil {
		return out
	}
	var all map[string]map[string]interface{}
	if json.Unmarshal(data, &all) != nil {
		return out
	}
	b := all[prop]
	if b == nil {
		return out
	}
	for _, k := range []string{tier, "outside_the_claim", "stubs_in_the_claim", "unwinding", "race_monitor", "native_replay"} {
		if v, ok := b[k]; ok {
			out[k] = v
		}
	}
	return out
}

func assumptionsFor(prop string) []string {
	common := []string{
		"gosym SSA interpreter implements Go semantics (validated per run by native replay of witnesses and by observe comparison)",
		"SMT solver (z3 4.8.12; cvc5 1.0 on unknown) is sound",
		"contract models for strconv/fmt/time/sync used as listed in DESIGN.md 2.3",
	}
	return common
}

// harnessAssumes lists, from the harness sources, the vhAssume(...) preconditions inside the harness
// functions that were executed in this run (so the evidence shows exactly what was assumed).
func harnessAssumes(hdir string, executed []string) []string {
	short := map[string]bool{}
	for _, f := range executed {
		if i := strings.LastIndex(f, "."); i >= 0 {
			f = f[i+1:]
		}
		if i := strings.Index(f, "$"); i >= 0 {
			f = f[:i]
		}
		short[f] = true
	}
	var out []string
	seen := map[string]bool{}
	fset := token.NewFileSet()
	for _, sub := range []string{"gobinlog", "replication"} {
		ents, _ := os.ReadDir(filepath.Join(hdir, sub))
		for _, ent := range ents {
			if !strings.HasSuffix(ent.Name(), ".go") {
				continue
			}
			path := filepath.Join(hdir, sub, ent.Name())
			src, err := os.ReadFile(path)
			if err != nil {
				continue
			}
			file, err := parser.ParseFile(fset, path, src, 0)
			if err != nil {
				continue
			}
			for _, d := range file.Decls {
				fd, ok := d.(*ast.FuncDecl)
				if !ok || fd.Body == nil || !short[fd.Name.Name] {
					continue
				}
				ast.Inspect(fd.Body, func(n ast.Node) bool {
					ce, ok := n.(*ast.CallExpr)
					if !ok {
						return true
					}
					id, ok := ce.Fun.(*ast.Ident)
					if !ok || id.Name != "vhAssume" || len(ce.Args) != 1 {
						return true
					}
					a, b := fset.Position(ce.Args[0].Pos()).Offset, fset.Position(ce.Args[0].End()).Offset
					txt := strings.Join(strings.Fields(string(src[a:b])), " ")
					s := "assume in " + fd.Name.Name + ": " + txt
					if !seen[s] && len(out) < 120 {
						seen[s] = true
						out = append(out, s)
					}
					return true
				})
			}
		}
	}
	sort.Strings(out)
	return out
}
