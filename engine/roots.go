package main

// Registry of exploration roots per property and tier, with the bounds and
// assumptions reported in the evidence.

func allProps() []string {
	return []string{"C01", "C02", "C03", "C04", "C05", "C06", "C07", "C08", "C09", "C10",
		"C11", "C12", "C13", "C14", "C15", "C16", "C17", "C18", "C19", "C20"}
}

func rng(lo, hi int) []int {
	var r []int
	for i := lo; i <= hi; i++ {
		r = append(r, i)
	}
	return r
}

func rootsFor(prop, tier string) []Root {
	thorough := tier == "thorough"
	var rs []Root
	add := func(h string, params ...int) {
		rs = append(rs, Root{Prop: prop, Harness: h, Params: append([]int{}, params...)})
	}
	switch prop {
	case "C10":
		for _, t := range []int{1, 2, 9, 3, 8} { // TINY SHORT INT24 LONG LONGLONG
			add("VH_C10_Int", t, 0)
			add("VH_C10_Int", t, 1)
		}
		add("VH_C10_Float", 0)
		add("VH_C10_Float", 1)
		add("VH_C10_Year")
		add("VH_C10_Bit")
		for _, via := range []int{0, 1} {
			add("VH_C10_Enum", via, 1)
			add("VH_C10_Enum", via, 2)
			for sz := 1; sz <= 8; sz++ {
				add("VH_C10_Set", via, sz)
			}
		}
	case "C11":
		for p := 1; p <= 65; p++ {
			maxs := p
			if maxs > 30 {
				maxs = 30
			}
			for sc := 0; sc <= maxs; sc++ {
				if !thorough {
					// quick: p <= 20 and the group-boundary precisions
					edge := p == 27 || p == 28 || p == 36 || p == 37 || p == 45 || p == 46 || p == 64 || p == 65
					if p > 20 && !edge {
						continue
					}
					if p > 20 && sc != 0 && sc != 1 && sc != 9 && sc != 10 && sc != 18 && sc != maxs {
						continue
					}
				}
				add("VH_C11_Decimal", p, sc)
			}
		}
	case "C12":
		add("VH_C12_Date", 10)
		add("VH_C12_Date", 14)
		add("VH_C12_TimeOld")
		add("VH_C12_DateTimeOld")
		add("VH_C12_TimestampOld")
		for dec := 0; dec <= 6; dec++ {
			add("VH_C12_Timestamp2", dec)
			add("VH_C12_DateTime2", dec)
			add("VH_C12_Time2", dec)
		}
	case "C17":
		hi := 64
		if thorough {
			hi = 300
		}
		for _, n := range rng(0, hi) {
			add("VH_C17_IsValid", n)
		}
	}
	return rs
}

func boundsFor(prop, tier string) map[string]interface{} {
	thorough := tier == "thorough"
	switch prop {
	case "C17":
		if thorough {
			return map[string]interface{}{"buffer_length": "0..300, every byte symbolic"}
		}
		return map[string]interface{}{"buffer_length": "0..64, every byte symbolic"}
	}
	return map[string]interface{}{}
}

func assumptionsFor(prop string) []string {
	common := []string{
		"gosym SSA interpreter implements Go semantics (validated per run by native replay of witnesses and by observe comparison)",
		"SMT solver (z3 4.8.12; cvc5 1.0 on unknown) is sound",
		"contract models for strconv/fmt/time/sync used as listed in DESIGN.md 2.3",
	}
	return common
}
