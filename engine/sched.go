package main

// Goroutines, channels, select, sync.Once: a cooperative scheduler in which
// every engine thread runs on its own Go goroutine but only one runs at a
// time.  Threads run uninterrupted between visible operations; at every
// visible operation the set of enabled transitions is computed and the
// choice among them is a recorded decision ('s'), so that all interleavings
// of visible operations are enumerated.

import (
	"fmt"
	"go/types"
	"strings"
	"sync"

	"golang.org/x/tools/go/ssa"
)

type pendKind int

const (
	pNone pendKind = iota
	pStart
	pResume
	pSend
	pRecv
	pSelect
	pClose
	pQuiesce
	pYield
	pOnce
	pSync
	pPeek      // len(ch) / cap(ch): reads the channel's state, a visible operation on that channel
	pWaitGroup // WaitGroup.Wait: enabled when the counter is zero
	pLock      // Mutex.Lock: enabled when the mutex is free
)

type selCase struct {
	send bool
	ch   *ChanObj
	val  Value
}

type onceState struct {
	state int // 0 idle, 1 running, 2 done
	vc    vclock
}

type ThreadX struct {
	id         int
	wake       chan struct{}
	done       bool
	pend       pendKind
	ch         *ChanObj
	val        Value
	sel        []selCase
	hasDefault bool
	once       *onceState
	syncObj    int
	wg         *wgState
	mu         *muState
	// results
	rval   Value
	rok    bool
	chosen int
	first  bool // for pOnce: this thread must run f
	lib    bool
	env    bool // spawned by harness code: an environment actor (master, canceller)
	site   string
	depth  int
	vc     vclock
	role   string // "caller", "lib:<file:line of the go statement>", "env"
	opSite string // file:line of the library-level visible operation the thread is parked at ("" otherwise)
}

// wgState / muState: sync.WaitGroup and sync.(RW)Mutex, keyed by the address of the variable.
type wgState struct {
	n  int64
	vc vclock
}

type muState struct {
	locked bool
	vc     vclock
}

type transition struct {
	t       *ThreadX
	partner *ThreadX // rendezvous partner (receiver side)
	caseIdx int      // select case of t (-1: default)
	pcase   int      // select case of partner
}

// transID identifies a transition independently of the state it is offered in
// (a parked thread's pending operation does not change until it is scheduled).
type transID struct {
	tid, kind, partner, caseIdx int
	objs                        string // sorted ids of the channels / sync objects touched
	nb                          bool   // non-blocking select (has a default case): its outcome depends on which
	//                                    other threads are parked where, i.e. on every other thread's progress
}

func (e *Exec) transIdent(tr transition) transID {
	t := tr.t
	id := transID{tid: t.id, kind: int(t.pend), partner: -1, caseIdx: tr.caseIdx}
	if tr.partner != nil {
		id.partner = tr.partner.id
	}
	switch t.pend {
	case pSend, pRecv, pClose, pPeek:
		if t.ch != nil {
			id.objs = fmt.Sprintf("c%d", t.ch.id)
		}
	case pSelect:
		id.nb = t.hasDefault
		var ids []string
		for _, sc := range t.sel {
			if sc.ch != nil {
				ids = append(ids, fmt.Sprintf("c%d", sc.ch.id))
			}
		}
		id.objs = strings.Join(ids, ",")
	case pOnce:
		id.objs = fmt.Sprintf("o%p", t.once)
	case pSync:
		id.objs = fmt.Sprintf("s%d", t.syncObj)
	case pWaitGroup:
		id.objs = fmt.Sprintf("w%p", t.wg)
	case pLock:
		id.objs = fmt.Sprintf("m%p", t.mu)
	case pQuiesce:
		id.objs = "*"
	}
	return id
}

// independent: the two transitions commute (different threads, no common
// channel / sync object, neither observes global quiescence).
func independent(a, b transID) bool {
	if a.tid == b.tid || a.tid == b.partner || b.tid == a.partner || (a.partner >= 0 && a.partner == b.partner) {
		return false
	}
	if a.objs == "*" || b.objs == "*" || a.nb || b.nb {
		return false
	}
	if a.objs == "" || b.objs == "" {
		return true
	}
	for _, x := range strings.Split(a.objs, ",") {
		for _, y := range strings.Split(b.objs, ",") {
			if x == y {
				return false
			}
		}
	}
	return true
}

// pick chooses among the enabled transitions with sleep-set reduction:
// transitions already explored from an equivalent state are not re-explored.
func (e *Exec) pick(trans []transition) transition {
	ss := e.ss
	if len(ss.threads) == 1 {
		// a single thread can still face a choice: a select with several ready cases
		k := 0
		if len(trans) > 1 {
			k = e.Sched(len(trans))
		}
		return trans[k]
	}
	if e.libPrio {
		// library-priority schedules: the environment (master, canceller, a yielding handler) moves
		// only when no library transition is enabled -- exactly the schedules that the native
		// replay can stage by ordering environment events and letting the library settle in between
		var prio []transition
		for _, tr := range trans {
			if !(tr.t.env || (tr.t.id == 0 && tr.t.pend == pYield)) {
				prio = append(prio, tr)
			}
		}
		if len(prio) > 0 {
			trans = prio
		}
		// no sleep sets here: under priorities an environment transition can disable another one
		// (it wakes the library, which then goes first), so the independence relation does not hold
		k := 0
		if len(trans) > 1 {
			k = e.Sched(len(trans))
		}
		return trans[k]
	}
	ids := make([]transID, len(trans))
	var cands []int
	for i, tr := range trans {
		ids[i] = e.transIdent(tr)
		if !ss.sleep[ids[i]] {
			cands = append(cands, i)
		}
	}
	if len(cands) == 0 {
		panic(abortf("pruned", "interleaving equivalent to one already explored (sleep set)"))
	}
	k := 0
	if len(cands) > 1 {
		k = e.Sched(len(cands))
	}
	chosen := ids[cands[k]]
	next := map[transID]bool{}
	for z := range ss.sleep {
		if independent(z, chosen) {
			next[z] = true
		}
	}
	for j := 0; j < k; j++ {
		if z := ids[cands[j]]; independent(z, chosen) {
			next[z] = true
		}
	}
	ss.sleep = next
	return trans[cands[k]]
}

type killSignal struct{}

type schedState struct {
	threads  []*ThreadX
	cur      *ThreadX
	killed   bool
	finished chan interface{}
	wg       sync.WaitGroup
	once     map[*Value]*onceState
	pools    map[*Value][]Value // sync.Pool free lists
	smaps    map[*Value]*MapObj // sync.Map contents
	wgs      map[*Value]*wgState
	mus      map[*Value]*muState
	sleep    map[transID]bool
	race     *raceState
}

func (e *Exec) initSched() {
	e.ss = &schedState{finished: make(chan interface{}, 64), once: map[*Value]*onceState{}, pools: map[*Value][]Value{}, smaps: map[*Value]*MapObj{}, sleep: map[transID]bool{}, race: newRaceState()}
}

// runThreads runs body as thread 0 and returns what ended the path:
// nil for normal completion, or the panic value (abort / failure).
func (e *Exec) runThreads(body func()) (res interface{}) {
	e.initSched()
	ss := e.ss
	t0 := &ThreadX{id: 0, wake: make(chan struct{}, 1), vc: vclock{1}, role: "caller"}
	ss.threads = append(ss.threads, t0)
	ss.cur = t0
	ss.wg.Add(1)
	go func() {
		defer ss.wg.Done()
		defer func() {
			r := recover()
			if _, isKill := r.(killSignal); isKill {
				return
			}
			ss.finished <- wrapNil(r)
		}()
		body()
	}()
	r := <-ss.finished
	ss.killed = true
	for _, t := range ss.threads {
		select {
		case t.wake <- struct{}{}:
		default:
		}
	}
	ss.wg.Wait()
	if _, ok := r.(nilResult); ok {
		return nil
	}
	return r
}

type nilResult struct{}

func wrapNil(r interface{}) interface{} {
	if r == nil {
		return nilResult{}
	}
	return r
}

func (e *Exec) spawn(fr *Frame, fn Value, args []Value, instr *ssa.Go) {
	ss := e.ss
	t := &ThreadX{id: len(ss.threads), wake: make(chan struct{}, 1), pend: pStart}
	t.site = e.curSite()
	pos := e.P.prog.Fset.Position(instr.Pos())
	t.lib = fr.fn.Pkg != nil && e.P.isRepoPkg(fr.fn.Pkg) && !strings.Contains(pos.Filename, "zz_verif")
	if fr.fn.Parent() != nil || fr.fn.Pkg != nil {
		// closures: use the enclosing package
		f := fr.fn
		for f.Parent() != nil {
			f = f.Parent()
		}
		t.lib = f.Pkg != nil && e.P.isRepoPkg(f.Pkg) && !strings.Contains(pos.Filename, "zz_verif")
	}
	t.env = !t.lib
	t.role = "env"
	if t.lib {
		file := pos.Filename
		if i := strings.LastIndex(file, "/"); i >= 0 {
			file = file[i+1:]
		}
		t.role = fmt.Sprintf("lib:%s:%d", file, pos.Line)
	}
	ss.threads = append(ss.threads, t)
	// happens-before: everything the parent did so far precedes the child
	t.vc = ss.cur.vc.clone()
	t.tick()
	ss.cur.tick()
	ss.race.active = true
	ss.wg.Add(1)
	go func() {
		defer ss.wg.Done()
		defer func() {
			r := recover()
			if _, isKill := r.(killSignal); isKill {
				return
			}
			if r != nil {
				ss.finished <- r
			}
		}()
		<-t.wake
		if ss.killed {
			panic(killSignal{})
		}
		func() {
			defer func() {
				// an uncaught Go panic in a goroutine crashes the program
				if r := recover(); r != nil {
					if tp, ok := r.(*TargetPanic); ok {
						e.failNoPanic("panic", "uncaught panic in goroutine: "+tp.msg, tp.site)
					}
					panic(r)
				}
			}()
			e.call(nil, fn, args)
		}()
		t.done = true
		e.threadExit(t)
	}()
}

func (e *Exec) failNoPanic(kind, msg, site string) {
	m := e.getModel()
	f := &Failure{Kind: kind, Msg: msg, Site: site, Model: m, Decs: append([]Dec{}, e.decs...)}
	f.Nondet = e.tapeValues(m)
	f.Chooses = append([]int64{}, e.chooses...)
	panic(f)
}

func (e *Exec) liveLibThreads() int {
	n := 0
	for _, t := range e.ss.threads {
		if t.lib && !t.done {
			n++
		}
	}
	return n
}

// ---- enabled transitions ----

func chanCanRecv(ch *ChanObj) bool { return ch != nil && (len(ch.q) > 0 || ch.closed) }
func chanCanSend(ch *ChanObj) bool { return ch != nil && (ch.closed || len(ch.q) < ch.cap) }

func (e *Exec) enabled() []transition {
	ss := e.ss
	var out []transition
	// receivers parked on a channel (for rendezvous)
	recvOn := func(ch *ChanObj, not *ThreadX) [](struct {
		t *ThreadX
		c int
	}) {
		var r [](struct {
			t *ThreadX
			c int
		})
		for _, u := range ss.threads {
			if u == not || u.done {
				continue
			}
			if u.pend == pRecv && u.ch == ch {
				r = append(r, struct {
					t *ThreadX
					c int
				}{u, 0})
			}
			if u.pend == pSelect {
				for i, sc := range u.sel {
					if !sc.send && sc.ch == ch {
						r = append(r, struct {
							t *ThreadX
							c int
						}{u, i})
					}
				}
			}
		}
		return r
	}
	var quiescers []*ThreadX
	for _, t := range ss.threads {
		if t.done {
			continue
		}
		switch t.pend {
		case pStart, pResume, pYield, pClose, pSync, pPeek:
			out = append(out, transition{t: t})
		case pOnce:
			if t.once.state != 1 {
				out = append(out, transition{t: t})
			}
		case pWaitGroup:
			if t.wg.n == 0 {
				out = append(out, transition{t: t})
			}
		case pLock:
			if !t.mu.locked {
				out = append(out, transition{t: t})
			}
		case pSend:
			if chanCanSend(t.ch) {
				out = append(out, transition{t: t})
			} else if t.ch != nil && t.ch.cap == 0 {
				// rendezvous exists on unbuffered channels only: a sender facing a FULL buffer waits for
				// space (a thread parked at a receive on that channel will take the queue's head first)
				for _, r := range recvOn(t.ch, t) {
					out = append(out, transition{t: t, partner: r.t, pcase: r.c})
				}
			}
		case pRecv:
			if chanCanRecv(t.ch) {
				out = append(out, transition{t: t})
			}
		case pSelect:
			any := false
			for i, sc := range t.sel {
				if sc.send {
					if chanCanSend(sc.ch) {
						out = append(out, transition{t: t, caseIdx: i})
						any = true
					} else if sc.ch != nil && sc.ch.cap == 0 {
						for _, r := range recvOn(sc.ch, t) {
							out = append(out, transition{t: t, caseIdx: i, partner: r.t, pcase: r.c})
						}
					}
				} else if chanCanRecv(sc.ch) {
					out = append(out, transition{t: t, caseIdx: i})
					any = true
				}
			}
			if t.hasDefault && !any {
				out = append(out, transition{t: t, caseIdx: -1})
			}
		case pQuiesce:
			quiescers = append(quiescers, t)
		}
	}
	if len(out) == 0 {
		for _, t := range quiescers {
			out = append(out, transition{t: t})
		}
	}
	return out
}

// libOpSite: file:line of the current instruction when it belongs to library (non-harness) code of /repo.
func (e *Exec) libOpSite() string {
	if e.curInstr == nil || e.curFn == nil || e.curFn.Pkg == nil || !e.P.isRepoPkg(e.curFn.Pkg) || e.P.isHarnessFnCached(e.curFn) {
		return ""
	}
	pos := e.curInstr.Pos()
	if !pos.IsValid() {
		return ""
	}
	p := e.P.prog.Fset.Position(pos)
	file := p.Filename
	if i := strings.LastIndex(file, "/"); i >= 0 {
		file = file[i+1:]
	}
	return fmt.Sprintf("%s:%d", file, p.Line)
}

func (e *Exec) traceOp(t *ThreadX) {
	if t != nil && t.opSite != "" {
		e.strace = append(e.strace, TraceEv{Role: t.role, Site: t.opSite})
		t.opSite = ""
	}
}

func (e *Exec) perform(tr transition) {
	t := tr.t
	if t.pend != pStart && t.pend != pResume {
		e.traceOp(t)
		e.traceOp(tr.partner)
	}
	c := e.ctx
	_ = c
	switch t.pend {
	case pStart, pResume, pYield, pQuiesce, pSync, pWaitGroup, pPeek:
	case pLock:
		t.mu.locked = true
	case pClose:
		if t.ch == nil {
			e.ss.cur = t
			e.rtPanic("chan", "close of nil channel")
		}
		if t.ch.closed {
			t.rok = false // signals panic to the closer
			t.chosen = -2
		} else {
			t.ch.closed = true
			t.chosen = 0
			t.releaseTo(&t.ch.closeVC)
		}
	case pOnce:
		if t.once.state == 0 {
			t.once.state = 1
			t.first = true
		} else {
			t.first = false
		}
	case pSend:
		e.doSend(t, t.ch, t.val, tr.partner, tr.pcase)
	case pRecv:
		e.doRecv(t, t.ch)
	case pSelect:
		t.chosen = tr.caseIdx
		if tr.caseIdx >= 0 {
			sc := t.sel[tr.caseIdx]
			if sc.send {
				e.doSend(t, sc.ch, sc.val, tr.partner, tr.pcase)
			} else {
				e.doRecv(t, sc.ch)
			}
		}
	}
	t.pend = pNone
}

func (e *Exec) doSend(t *ThreadX, ch *ChanObj, v Value, partner *ThreadX, pcase int) {
	if ch.closed {
		t.chosen = -3 // panic: send on closed channel (raised by the sender when it resumes)
		return
	}
	if partner != nil {
		partner.rval, partner.rok = v, true
		if partner.pend == pSelect {
			partner.chosen = pcase
		}
		partner.pend = pResume
		// rendezvous: the send precedes the receive and the receive precedes the completion of the send
		j := vcJoin(t.vc.clone(), partner.vc)
		t.vc, partner.vc = j.clone(), j
		t.tick()
		partner.tick()
		return
	}
	ch.q = append(ch.q, v)
	ch.qvc = append(ch.qvc, t.vc.clone())
	t.tick()
}

func (e *Exec) doRecv(t *ThreadX, ch *ChanObj) {
	if len(ch.q) > 0 {
		t.rval, t.rok = ch.q[0], true
		ch.q = ch.q[1:]
		if len(ch.qvc) > 0 {
			t.acquireFrom(ch.qvc[0])
			ch.qvc = ch.qvc[1:]
		}
		return
	}
	// closed
	t.acquireFrom(ch.closeVC)
	t.rval, t.rok = e.zero(ch.et), false
}

// reschedule parks the current thread at its pending operation and runs the
// scheduler; it returns once this thread's operation has been performed.
func (e *Exec) reschedule() {
	ss := e.ss
	me := ss.cur
	me.opSite = e.libOpSite()
	for {
		trans := e.enabled()
		if len(trans) == 0 {
			e.deadlock()
		}
		tr := e.pick(trans)
		e.perform(tr)
		next := tr.t
		if next == me {
			return
		}
		ss.cur = next
		next.wake <- struct{}{}
		<-me.wake
		if ss.killed {
			panic(killSignal{})
		}
		// woken: either our own op was performed by the waker (pend == pNone)
		// or we were completed as a rendezvous partner and then scheduled
		// through a pResume transition (also pNone now).
		if me.pend == pNone {
			return
		}
	}
}

func (e *Exec) deadlock() {
	var sb strings.Builder
	for _, t := range e.ss.threads {
		if !t.done {
			fmt.Fprintf(&sb, " thread%d(lib=%v,pend=%d)", t.id, t.lib, t.pend)
		}
	}
	e.failNoPanic("deadlock", "all goroutines blocked:"+sb.String(), e.curSite())
}

// threadExit is called on a non-main thread's goroutine when its function returned.
func (e *Exec) threadExit(t *ThreadX) {
	ss := e.ss
	trans := e.enabled()
	if len(trans) == 0 {
		e.deadlock()
	}
	tr := e.pick(trans)
	e.perform(tr)
	ss.cur = tr.t
	tr.t.wake <- struct{}{}
}

// ---- operations called by the interpreter ----

func (e *Exec) chanSend(ch *ChanObj, v Value) {
	t := e.ss.cur
	t.pend, t.ch, t.val, t.chosen = pSend, ch, v, 0
	e.reschedule()
	if t.chosen == -3 {
		e.rtPanic("chan", "send on closed channel")
	}
}

func (e *Exec) chanRecv(ch *ChanObj) (Value, bool) {
	t := e.ss.cur
	t.pend, t.ch = pRecv, ch
	e.reschedule()
	return t.rval, t.rok
}

func (e *Exec) chanClose(ch *ChanObj) {
	t := e.ss.cur
	t.pend, t.ch, t.chosen = pClose, ch, 0
	e.reschedule()
	if t.chosen == -2 {
		e.rtPanic("chan", "close of closed channel")
	}
}

// chanPeek: len(ch) / cap(ch) observe the channel's state; with several threads this is a visible
// operation that depends on every send, receive and close of that channel.
func (e *Exec) chanPeek(ch *ChanObj) {
	if e.ss == nil || len(e.ss.threads) == 1 || ch == nil {
		return
	}
	t := e.ss.cur
	t.pend, t.ch = pPeek, ch
	e.reschedule()
}

func (e *Exec) yield() {
	t := e.ss.cur
	if len(e.ss.threads) == 1 {
		return
	}
	t.pend = pYield
	e.reschedule()
}

// syncPoint: a visible operation on a pseudo object (models a lock-protected access).
func (e *Exec) syncPoint(obj int) {
	t := e.ss.cur
	if len(e.ss.threads) == 1 {
		return
	}
	t.pend, t.syncObj = pSync, obj
	e.reschedule()
	// lock-protected access: acquire, then release
	vc := e.ss.race.syncVC[obj]
	if vc == nil {
		vc = new(vclock)
		e.ss.race.syncVC[obj] = vc
	}
	t.acquireFrom(*vc)
	t.releaseTo(vc)
}

// quiesce blocks until no other thread can make progress.
func (e *Exec) quiesce() {
	t := e.ss.cur
	t.pend = pQuiesce
	e.reschedule()
}

// ---- sync.WaitGroup / sync.Mutex ----

func (e *Exec) wgOf(cell *Value) *wgState {
	ss := e.ss
	if ss.wgs == nil {
		ss.wgs = map[*Value]*wgState{}
	}
	st := ss.wgs[cell]
	if st == nil {
		st = &wgState{}
		ss.wgs[cell] = st
	}
	return st
}

func (e *Exec) wgAdd(cell *Value, delta int64) {
	st := e.wgOf(cell)
	st.n += delta
	if st.n < 0 {
		e.rtPanic("explicit", "sync: negative WaitGroup counter")
	}
	if delta < 0 {
		// Done happens before the Wait it unblocks
		e.ss.cur.releaseTo(&st.vc)
	}
	// counter changes are visible operations: a waiter may become enabled
	if len(e.ss.threads) > 1 {
		t := e.ss.cur
		t.pend, t.syncObj = pSync, -1
		e.reschedule()
	}
}

func (e *Exec) wgWait(cell *Value) {
	st := e.wgOf(cell)
	t := e.ss.cur
	t.pend, t.wg = pWaitGroup, st
	e.reschedule() // a counter that never reaches zero is a deadlock
	t.acquireFrom(st.vc)
}

func (e *Exec) muOf(cell *Value) *muState {
	ss := e.ss
	if ss.mus == nil {
		ss.mus = map[*Value]*muState{}
	}
	st := ss.mus[cell]
	if st == nil {
		st = &muState{}
		ss.mus[cell] = st
	}
	return st
}

func (e *Exec) muLock(cell *Value) {
	st := e.muOf(cell)
	t := e.ss.cur
	t.pend, t.mu = pLock, st
	e.reschedule() // locking a mutex nobody will unlock is a deadlock
	t.acquireFrom(st.vc)
}

func (e *Exec) muUnlock(cell *Value) {
	st := e.muOf(cell)
	if !st.locked {
		e.rtPanic("explicit", "sync: unlock of unlocked mutex")
	}
	st.locked = false
	e.ss.cur.releaseTo(&st.vc)
	if len(e.ss.threads) > 1 {
		t := e.ss.cur
		t.pend, t.syncObj = pSync, -2
		e.reschedule()
	}
}

func (e *Exec) onceDo(cell *Value, f Value, caller *Frame) {
	ss := e.ss
	st := ss.once[cell]
	if st == nil {
		st = &onceState{}
		ss.once[cell] = st
	}
	t := ss.cur
	if len(ss.threads) == 1 {
		if st.state == 0 {
			st.state = 1
			e.call(caller, f, nil)
			st.state = 2
			t.releaseTo(&st.vc)
		}
		return
	}
	t.pend, t.once = pOnce, st
	e.reschedule()
	if t.first {
		t.first = false
		e.call(caller, f, nil)
		st.state = 2
		t.releaseTo(&st.vc)
	} else {
		t.acquireFrom(st.vc)
	}
}

func (e *Exec) selectOp(fr *Frame, instr *ssa.Select) Value {
	t := e.ss.cur
	t.sel = t.sel[:0]
	for _, st := range instr.States {
		sc := selCase{send: st.Dir == types.SendOnly}
		sc.ch, _ = fr.get(st.Chan).(*ChanObj)
		if sc.send {
			sc.val = fr.get(st.Send)
		}
		t.sel = append(t.sel, sc)
	}
	t.hasDefault = !instr.Blocking
	t.pend = pSelect
	t.rval, t.rok = nil, false
	e.reschedule()
	if t.chosen >= 0 && t.sel[t.chosen].send && t.chosen == -3 {
		e.rtPanic("chan", "send on closed channel")
	}
	r := TupleV{e.i64(int64(t.chosen)), e.ctx.Bool(t.rok)}
	for i, st := range instr.States {
		if st.Dir == types.RecvOnly {
			var v Value
			if i == t.chosen && t.rval != nil {
				v = t.rval
			} else {
				v = e.zero(st.Chan.Type().Underlying().(*types.Chan).Elem())
			}
			r = append(r, v)
		}
	}
	return r
}
