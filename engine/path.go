package main

import (
	"fmt"
	"os"
	"runtime/debug"
	"strings"

	"golang.org/x/tools/go/ssa"
)

// runPath executes one path of a root, steered by prefix.
func runPath(P *Prog, sol, alt, cross *Solver, crossRate int, root Root, prefix []Dec, wantWitness, wantProbe bool, covered map[string]bool, trace bool) (pr *PathResult) {
	pr = &PathResult{}
	e := &Exec{P: P, ctx: NewCtx(), sol: sol, alt: alt, prefix: prefix,
		pcSet:     map[*Term]bool{},
		subst:     map[*Term]*Term{},
		normMemo:  map[*Term]*Term{},
		globals:   map[*ssa.Global]*Value{},
		strCache:  map[string]*Backing{},
		onceDone:  map[*Value]bool{},
		funcsSeen: map[string]bool{},
		fnSeen:    map[*ssa.Function]bool{},
		maxSteps:  root.MaxSteps,
		maxDecs:   root.MaxDecs,
		libPrio:   root.LibPrio,
		cross:     cross,
		crossRate: crossRate,
		trace:     os.Getenv("GOSYM_TRACE") != "",
	}
	if e.maxSteps == 0 {
		e.maxSteps = 3000000
	}
	if e.maxDecs == 0 {
		e.maxDecs = 400
	}
	sol.BeginPath()
	fn := P.harnessFunc(root.Harness)
	if fn == nil {
		pr.Status, pr.Reason = "inconclusive", "harness function not found: "+root.Harness
		return
	}
	res := e.runThreads(func() {
		defer func() {
			// convert engine crashes into aborts carrying the stack
			if r := recover(); r != nil {
				switch r.(type) {
				case *pathAbort, *Failure, killSignal:
					panic(r)
				case *TargetPanic:
					tp := r.(*TargetPanic)
					m := e.getModel()
					f := &Failure{Kind: "panic", Msg: tp.kind + ": " + tp.msg, Site: tp.site, Model: m, Decs: append([]Dec{}, e.decs...)}
					f.Nondet = e.tapeValues(m)
					f.Chooses = append([]int64{}, e.chooses...)
					panic(f)
				default:
					panic(abortf("crash", "engine crash: %v at %s\n%s", r, e.curSite(), shortStack()))
				}
			}
		}()
		// package initialisation of the two repo packages (concrete)
		for _, path := range []string{repoModule + "/replication", repoModule} {
			if sp := P.pkgs[path]; sp != nil {
				if init := sp.Func("init"); init != nil {
					e.call(nil, init, nil)
				}
			}
		}
		e.steps = 0
		args := make([]Value, len(root.Params))
		for i, p := range root.Params {
			args[i] = e.i64(int64(p))
		}
		if len(fn.Params) != len(args) {
			panic(abortf("unsupported", "harness %s takes %d params, root has %d", root.Harness, len(fn.Params), len(args)))
		}
		e.call(nil, fn, args)
		// normal completion: witness
		needCover := false
		for _, l := range e.covers {
			if !covered[l] {
				needCover = true
			}
		}
		if wantWitness || needCover {
			m := e.getModel()
			w := &Witness{Nondet: e.tapeValues(m), Chooses: append([]int64{}, e.chooses...), Decs: append([]Dec{}, e.decs...), Env: append([]int64{}, e.envTrace...)}
			for _, o := range e.observes {
				ov := ObsVal{Label: o.label, Lens: o.lens, Opaque: o.opaque}
				for _, t := range o.terms {
					v, ok := Eval(t, m)
					if !ok {
						ov.Opaque = true
					}
					ov.Vals = append(ov.Vals, v)
				}
				w.Observes = append(w.Observes, ov)
			}
			pr.Witness = w
		}
	})
	pr.Decs = e.decs
	pr.Alts = e.alts
	pr.Steps = e.steps
	pr.Asserts = e.asserts
	pr.AssertsFold = e.assertsFold
	pr.Covers = e.covers
	pr.Inconclusive = e.inconcl
	pr.FuncsSeen = e.funcsSeen
	pr.NDec = e.newDecs
	pr.RaceChecks = e.raceChecks
	pr.CrossChecked, pr.CrossDisagree = e.crossChecked, e.crossDisagree
	switch r := res.(type) {
	case nil:
		pr.Status = "ok"
	case *Failure:
		pr.Status = "fail"
		r.Env = append([]int64{}, e.envTrace...)
		r.STrace = append([]TraceEv{}, e.strace...)
		if e.ss != nil {
			// operations that threads were parked at when the run ended (attempted, never performed): natively
			// they must not be reached before everything that was performed
			for _, t := range e.ss.threads {
				if !t.done && t.opSite != "" {
					r.STrace = append(r.STrace, TraceEv{Role: t.role, Site: t.opSite})
				}
			}
		}
		r.LibPrio = e.libPrio
		pr.Failure = r
		pr.Reason = r.Kind + ": " + r.Msg + " @" + r.Site
	case *pathAbort:
		if r.kind == "infeasible" || r.kind == "pruned" {
			pr.Status = "infeasible"
		} else {
			pr.Status = "inconclusive"
			pr.Reason = r.kind + ": " + r.msg
			if wantProbe && (r.kind == "unsupported" || r.kind == "steps" || r.kind == "unwind" || r.kind == "crash") && !hasSched(e.decs) {
				// the engine cannot finish this path: keep a model of what it has so far, the native
				// replay runs the real code on it (inputs the path did not reach are zero)
				func() {
					defer func() { recover() }()
					m := e.getModel()
					pr.Probe = &Witness{Nondet: e.tapeValues(m), Chooses: append([]int64{}, e.chooses...), Decs: append([]Dec{}, e.decs...), Bound: r.kind == "steps"}
				}()
			}
		}
	default:
		pr.Status = "inconclusive"
		pr.Reason = fmt.Sprintf("engine: %v", r)
	}
	return
}

func shortStack() string {
	st := string(debug.Stack())
	lines := strings.Split(st, "\n")
	var out []string
	for _, l := range lines {
		if strings.Contains(l, "/verif/engine/") && !strings.Contains(l, "path.go") {
			out = append(out, strings.TrimSpace(l))
			if len(out) >= 6 {
				break
			}
		}
	}
	return strings.Join(out, " <- ")
}
