package main

import (
	"fmt"
	"go/types"
	"strings"

	"golang.org/x/tools/go/ssa"
)

// Value is one of:
//
//	*Term            scalar: ints, bool (w=0), floats (as IEEE bits), uintptr
//	StrV             string
//	SliceV           slice
//	*Backing         array value (value semantics: copied on load/store)
//	StructV          struct value (copied on load/store)
//	PtrV             pointer
//	IfaceV           interface
//	*MapObj          map (nil pointer = nil map)
//	*ChanObj         channel
//	*ssa.Function, *ssa.Builtin, *Closure, nil-func (FuncNil)   functions
//	TupleV           multiple results
//	*IterV           range iterator
type Value interface{}

type Backing struct {
	cells  []Value
	id     int
	origin string // "global:<name>", "alloc:<fn>", "input", "const", ...
	flt    *FloatText
	opaque string      // non-empty: contents are not modelled (reading is unsupported)
	json   interface{} // *JNode when the bytes are json.Marshal output
}

// FloatText marks a byte backing as "the text strconv.AppendFloat produced"
type FloatText struct {
	bits    *Term // float64 bits passed to AppendFloat
	srcBits *Term // when bits is a widening of a float32: the float32 bits
	fmtc    byte
	prec    int
	bitSize int
}

type StrV struct {
	b      *Backing
	off, n *Term
}

type SliceV struct {
	b           *Backing
	off, n, cap *Term
}

type StructV []Value

type PtrV struct {
	cell *Value   // concrete location
	b    *Backing // symbolic element location: b.cells[idx]
	idx  *Term
	// provenance for element pointers (so that slicing *array works)
	arr *Backing
}

func (p PtrV) IsNil() bool { return p.cell == nil && p.b == nil }

type IfaceV struct {
	t types.Type // nil => nil interface
	v Value
}

type MapObj struct {
	keys []Value
	vals []Value
	kt   types.Type
	vt   types.Type
	id   int
}

type ChanObj struct {
	cap    int
	q      []Value
	closed bool
	id     int
	et     types.Type
	// happens-before bookkeeping (race.go): clock of the sender per queued value, clock of the closer
	qvc     []vclock
	closeVC vclock
	// waiting threads are tracked by the scheduler
}

type Closure struct {
	fn  *ssa.Function
	env []Value
}

type FuncNil struct{}

type TupleV []Value

type IterV struct {
	// map iteration
	m    *MapObj
	keys []Value
	vals []Value
	// string iteration
	s StrV
	i int
}

func isNamedType(t types.Type, pkg, name string) bool {
	n, ok := t.(*types.Named)
	if !ok {
		return false
	}
	o := n.Obj()
	return o.Name() == name && o.Pkg() != nil && o.Pkg().Path() == pkg
}

func basicWidth(b *types.Basic) int {
	switch b.Kind() {
	case types.Bool, types.UntypedBool:
		return 0
	case types.Int8, types.Uint8:
		return 8
	case types.Int16, types.Uint16:
		return 16
	case types.Int32, types.Uint32, types.Float32, types.UntypedRune:
		return 32
	case types.Int, types.Uint, types.Int64, types.Uint64, types.Uintptr, types.Float64, types.UntypedInt, types.UntypedFloat:
		return 64
	}
	return -1
}

func isSignedBasic(b *types.Basic) bool {
	return b.Info()&types.IsInteger != 0 && b.Info()&types.IsUnsigned == 0
}

func isFloatBasic(b *types.Basic) bool { return b.Info()&types.IsFloat != 0 }

func underBasic(t types.Type) (*types.Basic, bool) {
	b, ok := t.Underlying().(*types.Basic)
	return b, ok
}

func isStringType(t types.Type) bool {
	b, ok := t.Underlying().(*types.Basic)
	return ok && b.Info()&types.IsString != 0
}

// allocBound: cells one path may allocate (64 bytes of engine memory per cell and more): a path that
// goes beyond it is ended like one that exceeds its step bound (and probed natively).
const allocBound = 24 << 20

func (e *Exec) newBacking(n int, origin string) *Backing {
	e.cellsAlloc += n
	if e.cellsAlloc > allocBound {
		panic(abortf("steps", "allocation bound of %d cells exceeded at %s", allocBound, e.curSite()))
	}
	e.nextObj++
	return &Backing{cells: make([]Value, n), id: e.nextObj, origin: origin}
}

func (e *Exec) zero(t types.Type) Value {
	switch u := t.Underlying().(type) {
	case *types.Basic:
		if u.Info()&types.IsString != 0 {
			return StrV{off: e.i64(0), n: e.i64(0)}
		}
		if u.Kind() == types.UnsafePointer {
			return PtrV{}
		}
		w := basicWidth(u)
		if w < 0 {
			panic(abortf("unsupported", "zero of basic type %v", t))
		}
		return e.ctx.Const(w, 0)
	case *types.Pointer:
		return PtrV{}
	case *types.Slice:
		return SliceV{off: e.i64(0), n: e.i64(0), cap: e.i64(0)}
	case *types.Map:
		return (*MapObj)(nil)
	case *types.Chan:
		return (*ChanObj)(nil)
	case *types.Signature:
		return FuncNil{}
	case *types.Interface:
		return IfaceV{}
	case *types.Struct:
		s := make(StructV, u.NumFields())
		for i := range s {
			s[i] = e.zero(u.Field(i).Type())
		}
		return s
	case *types.Array:
		b := e.newBacking(int(u.Len()), "array")
		for i := range b.cells {
			b.cells[i] = e.zero(u.Elem())
		}
		return b
	case *types.Tuple:
		tv := make(TupleV, u.Len())
		for i := range tv {
			tv[i] = e.zero(u.At(i).Type())
		}
		return tv
	}
	panic(abortf("unsupported", "zero of type %v (%T)", t, t.Underlying()))
}

func (e *Exec) copyVal(v Value) Value {
	switch v := v.(type) {
	case StructV:
		n := make(StructV, len(v))
		for i := range v {
			n[i] = e.copyVal(v[i])
		}
		return n
	case *Backing:
		if v == nil {
			return v
		}
		b := e.newBacking(len(v.cells), "array")
		for i := range v.cells {
			b.cells[i] = e.copyVal(v.cells[i])
		}
		return b
	}
	return v
}

func (e *Exec) i64(v int64) *Term { return e.ctx.Const(64, uint64(v)) }

func (e *Exec) constStr(s string) StrV {
	if b, ok := e.strCache[s]; ok {
		return StrV{b: b, off: e.i64(0), n: e.i64(int64(len(s)))}
	}
	b := e.newBacking(len(s), "const")
	for i := 0; i < len(s); i++ {
		b.cells[i] = e.ctx.Const(8, uint64(s[i]))
	}
	e.strCache[s] = b
	return StrV{b: b, off: e.i64(0), n: e.i64(int64(len(s)))}
}

// concrete string of a StrV if all bytes and the length are constant
func (e *Exec) strConst(s StrV) (string, bool) {
	if !s.n.IsConst() || !s.off.IsConst() {
		return "", false
	}
	n := int(s.n.c)
	if n == 0 {
		return "", true
	}
	var sb strings.Builder
	for i := 0; i < n; i++ {
		c, ok := s.b.cells[int(s.off.c)+i].(*Term)
		if !ok || !c.IsConst() {
			return "", false
		}
		sb.WriteByte(byte(c.c))
	}
	return sb.String(), true
}

// ---- abort / panic plumbing ----

// pathAbort ends the exploration of the current path for engine reasons.
type pathAbort struct {
	kind string // "infeasible", "unsupported", "unwind", "steps", "solver", "mismatch", "stop"
	msg  string
}

func abortf(kind, format string, args ...interface{}) *pathAbort {
	return &pathAbort{kind: kind, msg: fmt.Sprintf(format, args...)}
}

// TargetPanic is a Go-level panic of the program under analysis.
type TargetPanic struct {
	val  Value
	kind string // "index", "slice", "nil", "divide", "typeassert", "explicit", "nilmap", "chan"
	msg  string
	site string
}

func (e *Exec) rtPanic(kind, msg string) {
	panic(&TargetPanic{kind: kind, msg: msg, site: e.curSite()})
}

func showValue(v Value) string {
	switch v := v.(type) {
	case nil:
		return "<nil>"
	case *Term:
		return v.String()
	case StrV:
		return fmt.Sprintf("str(len=%v)", v.n)
	case SliceV:
		return fmt.Sprintf("slice(len=%v)", v.n)
	case IfaceV:
		if v.t == nil {
			return "iface(nil)"
		}
		return fmt.Sprintf("iface(%v)", v.t)
	}
	return fmt.Sprintf("%T", v)
}
