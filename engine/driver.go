package main

// Exploration driver: roots, work queue, workers, result aggregation.

import (
	"fmt"
	"os"
	"runtime/debug"
	"sort"
	"strings"
	"sync"
	"time"
)

// Root is one exploration root: a harness function with concrete parameters.
type Root struct {
	Prop     string
	Harness  string
	Params   []int
	MaxDecs  int // bound on decisions per path (unwinding bound)
	MaxSteps int
	Note     string
	LibPrio  bool // exploration restricted to schedules in which library threads run to their next blocking point before the environment moves
}

func (r Root) Key() string {
	ps := make([]string, len(r.Params))
	for i, p := range r.Params {
		ps[i] = fmt.Sprint(p)
	}
	return r.Harness + "(" + strings.Join(ps, ",") + ")"
}

type RootResult struct {
	Root                        Root
	Paths                       int
	Infeasible                  int
	Decisions                   int
	Steps                       int
	Asserts                     int
	AssertsFold                 int
	Failures                    []*Failure
	Inconclusive                []string
	Covers                      map[string]bool
	Witnesses                   []*Witness
	Probes                      []*Witness
	BoundHits                   int // paths that ended at their step / allocation bound
	CoverWitness                map[string]*Witness
	Funcs                       map[string]bool
	RaceChecks                  int
	CrossChecked, CrossDisagree int
	mu                          sync.Mutex
	pending                     int
}

type workItem struct {
	ri     int
	prefix []Dec
}

type Explorer struct {
	P                 *Prog
	roots             []Root
	results           []*RootResult
	workers           int
	solverKind        string
	timeoutMs         int
	maxPathsPerRoot   int
	maxWitnessPerRoot int
	deadline          time.Time
	stats             SolverStats
	statsMu           sync.Mutex
	verbose           bool
	stopOnFail        bool
	crossRate         int // 0: off; n: every n-th discharged obligation is re-asked on z3-new
}

func (x *Explorer) Run() {
	x.results = make([]*RootResult, len(x.roots))
	for i, r := range x.roots {
		x.results[i] = &RootResult{Root: r, Covers: map[string]bool{}, CoverWitness: map[string]*Witness{}, Funcs: map[string]bool{}}
	}
	var mu sync.Mutex
	cond := sync.NewCond(&mu)
	var stack []workItem
	for i := len(x.roots) - 1; i >= 0; i-- {
		stack = append(stack, workItem{ri: i})
		x.results[i].pending = 1
	}
	active := 0
	var wg sync.WaitGroup
	for w := 0; w < x.workers; w++ {
		wg.Add(1)
		go func(w int) {
			defer wg.Done()
			sol, err := NewSolver(x.solverKind, x.timeoutMs)
			if err != nil {
				fmt.Fprintln(os.Stderr, "solver start failed:", err)
				return
			}
			defer sol.Close()
			var alt, cross *Solver
			if x.crossRate > 0 {
				cross, _ = NewSolver("z3-new", x.timeoutMs)
			}
			defer func() {
				if alt != nil {
					alt.Close()
				}
				if cross != nil {
					cross.Close()
				}
				x.statsMu.Lock()
				x.stats.Sat += sol.stats.Sat
				x.stats.Unsat += sol.stats.Unsat
				x.stats.Unknown += sol.stats.Unknown
				x.stats.Errors += sol.stats.Errors
				x.stats.Time += sol.stats.Time
				if alt != nil {
					x.stats.Sat += alt.stats.Sat
					x.stats.Unsat += alt.stats.Unsat
					x.stats.Unknown += alt.stats.Unknown
					x.stats.Time += alt.stats.Time
				}
				x.statsMu.Unlock()
			}()
			for {
				mu.Lock()
				for len(stack) == 0 && active > 0 {
					cond.Wait()
				}
				if len(stack) == 0 && active == 0 {
					mu.Unlock()
					cond.Broadcast()
					return
				}
				it := stack[len(stack)-1]
				stack = stack[:len(stack)-1]
				active++
				mu.Unlock()

				rr := x.results[it.ri]
				var pr *PathResult
				skip := false
				rr.mu.Lock()
				if x.maxPathsPerRoot > 0 && rr.Paths >= x.maxPathsPerRoot {
					skip = true
					rr.Inconclusive = appendUniq(rr.Inconclusive, fmt.Sprintf("path budget %d exhausted", x.maxPathsPerRoot))
				}
				if !x.deadline.IsZero() && time.Now().After(x.deadline) {
					skip = true
					rr.Inconclusive = appendUniq(rr.Inconclusive, "time budget exhausted")
				}
				if rr.BoundHits >= 3 {
					// three paths of this root ran into their step / allocation bound: the root is not decided
					// (it is reported INCONCLUSIVE and its probes run natively); the rest would take hours
					skip = true
					rr.Inconclusive = appendUniq(rr.Inconclusive, "exploration of this root stopped after 3 paths exceeded their step or allocation bound")
				}
				if x.stopOnFail && len(rr.Failures) >= x.failCap(rr) {
					// counterexamples found: no need to exhaust the (possibly exploding) rest of this root
					skip = true
				}
				wantW := len(rr.Witnesses) < x.maxWitnessPerRoot
				wantP := len(rr.Probes) < 2
				covered := map[string]bool{}
				for l := range rr.CoverWitness {
					covered[l] = true
				}
				rr.mu.Unlock()
				if !skip {
					if alt == nil {
						alt, _ = NewSolver("cvc5", x.timeoutMs)
					}
					pr = runPath(x.P, sol, alt, cross, x.crossRate, rr.Root, it.prefix, wantW, wantP, covered, x.verbose)
				}

				mu.Lock()
				if pr != nil {
					for _, a := range pr.Alts {
						stack = append(stack, workItem{ri: it.ri, prefix: a})
					}
				}
				active--
				mu.Unlock()
				cond.Broadcast()

				if pr != nil {
					rr.mu.Lock()
					rr.Paths++
					rr.Decisions += pr.NDec
					rr.Steps += pr.Steps
					rr.Asserts += pr.Asserts
					rr.AssertsFold += pr.AssertsFold
					rr.RaceChecks += pr.RaceChecks
					rr.CrossChecked += pr.CrossChecked
					rr.CrossDisagree += pr.CrossDisagree
					for f := range pr.FuncsSeen {
						rr.Funcs[f] = true
					}
					switch pr.Status {
					case "infeasible":
						rr.Infeasible++
					case "fail":
						rr.Failures = append(rr.Failures, pr.Failure)
					case "inconclusive":
						rr.Inconclusive = appendUniq(rr.Inconclusive, pr.Reason)
						if strings.HasPrefix(pr.Reason, "steps") {
							rr.BoundHits++
						}
					}
					for _, s := range pr.Inconclusive {
						rr.Inconclusive = appendUniq(rr.Inconclusive, s)
					}
					if pr.Probe != nil && len(rr.Probes) < 2 {
						rr.Probes = append(rr.Probes, pr.Probe)
					}
					if pr.Witness != nil {
						if len(rr.Witnesses) < x.maxWitnessPerRoot {
							rr.Witnesses = append(rr.Witnesses, pr.Witness)
						}
						for _, c := range pr.Covers {
							if rr.CoverWitness[c] == nil {
								rr.CoverWitness[c] = pr.Witness
							}
						}
					}
					if pr.Status == "ok" {
						for _, c := range pr.Covers {
							rr.Covers[c] = true
						}
					}
					rr.mu.Unlock()
					if x.verbose && pr.Failure != nil && len(pr.Failure.Env) > 0 {
						fmt.Printf("  env events of the failing run: %v\n", pr.Failure.Env)
					}
					if x.verbose {
						fmt.Printf("  path %s %s: %s %s (decs=%d steps=%d)\n", rr.Root.Key(), decString(pr.Decs), pr.Status, pr.Reason, len(pr.Decs), pr.Steps)
					}
				}
			}
		}(w)
	}
	wg.Wait()
}

// failCap: how many counterexamples of a root are collected before the rest of the root is skipped.
// Schedule-dependent failures are collected in greater number: they differ in their interleaving and
// only some interleavings can be staged natively.
func (x *Explorer) failCap(rr *RootResult) int {
	for _, f := range rr.Failures {
		if hasSched(f.Decs) {
			return 24
		}
	}
	return 3
}

func appendUniq(l []string, s string) []string {
	for _, x := range l {
		if x == s {
			return l
		}
	}
	if len(l) >= 20 {
		return l
	}
	return append(l, s)
}

func decString(ds []Dec) string {
	var sb strings.Builder
	for i, d := range ds {
		if i > 60 {
			sb.WriteString("…")
			break
		}
		sb.WriteString(d.String())
	}
	return sb.String()
}

func sortedKeys(m map[string]bool) []string {
	var ks []string
	for k := range m {
		ks = append(ks, k)
	}
	sort.Strings(ks)
	return ks
}

var _ = debug.Stack
