package main

import (
	"fmt"
	"math"
	"strconv"
	"strings"
)

// IEEE-754 operations. Go float32/float64 values are carried as their bit patterns (bit-vector
// terms of width 32/64); an OFP term applies an INTERPRETED floating-point function to such
// patterns: in the solver it is printed with the SMT-LIB FloatingPoint theory (to_fp on the way
// in, fp.to_ieee_bv on the way out), in the engine's own evaluator it is computed with Go's
// float arithmetic. Names:
//
//	lt64 le64 eq64 (and 32)        comparisons -> Bool (fp.lt / fp.leq / fp.eq: NaN unordered, -0 == +0)
//	add64 sub64 mul64 div64 (32)   round-to-nearest-even arithmetic
//	trunc64 floor64 ceil64         fp.roundToIntegral RTZ / RTN / RTP
//	f32to64 f64to32                width conversion (RNE)
//	tosi<fw>_<iw>  toui<fw>_<iw>   float -> integer of width iw, truncation toward zero; out of range
//	                               values are unspecified in SMT-LIB and implementation-specific in
//	                               Go: a counterexample that depends on one fails its native replay
//	fromsi<iw>_<fw> fromui<iw>_<fw> integer -> float (RNE)
//
// Negation and math.Abs need no FP term: they flip / clear the sign bit.
func (c *Ctx) FP(name string, w int, args ...*Term) *Term {
	all := true
	vals := make([]uint64, len(args))
	for i, a := range args {
		if !a.IsConst() {
			all = false
			break
		}
		vals[i] = a.c
	}
	if all {
		if v, ok := fpEval(name, vals); ok {
			if w == 0 {
				return c.Bool(v != 0)
			}
			return c.Const(w, v)
		}
	}
	return c.mk(&Term{op: OFP, w: w, name: name, a: args})
}

func fpSort(fw int) string {
	if fw == 32 {
		return "8 24"
	}
	return "11 53"
}

func fpIn(ref string, fw int) string { return fmt.Sprintf("((_ to_fp %s) %s)", fpSort(fw), ref) }

// fpParse splits an OFP name into its operation and widths.
func fpParse(name string) (op string, w1, w2 int) {
	i := strings.IndexAny(name, "0123456789")
	if i < 0 {
		return name, 0, 0
	}
	op = name[:i]
	rest := name[i:]
	if j := strings.IndexByte(rest, '_'); j >= 0 {
		w1, _ = strconv.Atoi(rest[:j])
		w2, _ = strconv.Atoi(rest[j+1:])
		return
	}
	if op == "f" { // f32to64 / f64to32
		return name, 0, 0
	}
	w1, _ = strconv.Atoi(rest)
	return
}

func fpSmt(t *Term) string {
	r := func(i int) string { return smtRef(t.a[i]) }
	switch t.name {
	case "f32to64":
		return fmt.Sprintf("(fp.to_ieee_bv ((_ to_fp 11 53) RNE %s))", fpIn(r(0), 32))
	case "f64to32":
		return fmt.Sprintf("(fp.to_ieee_bv ((_ to_fp 8 24) RNE %s))", fpIn(r(0), 64))
	}
	op, w1, w2 := fpParse(t.name)
	switch op {
	case "lt":
		return fmt.Sprintf("(fp.lt %s %s)", fpIn(r(0), w1), fpIn(r(1), w1))
	case "le":
		return fmt.Sprintf("(fp.leq %s %s)", fpIn(r(0), w1), fpIn(r(1), w1))
	case "eq":
		return fmt.Sprintf("(fp.eq %s %s)", fpIn(r(0), w1), fpIn(r(1), w1))
	case "add", "sub", "mul", "div":
		return fmt.Sprintf("(fp.to_ieee_bv (fp.%s RNE %s %s))", op, fpIn(r(0), w1), fpIn(r(1), w1))
	case "trunc", "floor", "ceil":
		rm := map[string]string{"trunc": "RTZ", "floor": "RTN", "ceil": "RTP"}[op]
		return fmt.Sprintf("(fp.to_ieee_bv (fp.roundToIntegral %s %s))", rm, fpIn(r(0), w1))
	case "tosi":
		return fmt.Sprintf("((_ fp.to_sbv %d) RTZ %s)", w2, fpIn(r(0), w1))
	case "toui":
		return fmt.Sprintf("((_ fp.to_ubv %d) RTZ %s)", w2, fpIn(r(0), w1))
	case "fromsi":
		return fmt.Sprintf("(fp.to_ieee_bv ((_ to_fp %s) RNE %s))", fpSort(w2), r(0))
	case "fromui":
		return fmt.Sprintf("(fp.to_ieee_bv ((_ to_fp_unsigned %s) RNE %s))", fpSort(w2), r(0))
	}
	panic("fpSmt: unknown floating-point function " + t.name)
}

func fpVal(bits uint64, fw int) float64 {
	if fw == 32 {
		return float64(math.Float32frombits(uint32(bits)))
	}
	return math.Float64frombits(bits)
}

func fpBits(f float64, fw int) uint64 {
	if fw == 32 {
		return uint64(math.Float32bits(float32(f)))
	}
	return math.Float64bits(f)
}

// fpEval computes an OFP function on concrete bit patterns with Go's own arithmetic (the
// engine and the native replays run on the same architecture).
func fpEval(name string, a []uint64) (uint64, bool) {
	switch name {
	case "f32to64":
		return math.Float64bits(float64(math.Float32frombits(uint32(a[0])))), true
	case "f64to32":
		return uint64(math.Float32bits(float32(math.Float64frombits(a[0])))), true
	}
	op, w1, w2 := fpParse(name)
	switch op {
	case "lt":
		return b2u(fpVal(a[0], w1) < fpVal(a[1], w1)), true
	case "le":
		return b2u(fpVal(a[0], w1) <= fpVal(a[1], w1)), true
	case "eq":
		return b2u(fpVal(a[0], w1) == fpVal(a[1], w1)), true
	case "add", "sub", "mul", "div":
		if w1 == 32 {
			x, y := math.Float32frombits(uint32(a[0])), math.Float32frombits(uint32(a[1]))
			var z float32
			switch op {
			case "add":
				z = x + y
			case "sub":
				z = x - y
			case "mul":
				z = x * y
			default:
				z = x / y
			}
			return uint64(math.Float32bits(z)), true
		}
		x, y := math.Float64frombits(a[0]), math.Float64frombits(a[1])
		var z float64
		switch op {
		case "add":
			z = x + y
		case "sub":
			z = x - y
		case "mul":
			z = x * y
		default:
			z = x / y
		}
		return math.Float64bits(z), true
	case "trunc":
		return fpBits(math.Trunc(fpVal(a[0], w1)), w1), true
	case "floor":
		return fpBits(math.Floor(fpVal(a[0], w1)), w1), true
	case "ceil":
		return fpBits(math.Ceil(fpVal(a[0], w1)), w1), true
	case "tosi":
		f := fpVal(a[0], w1)
		var v int64
		switch w2 {
		case 8:
			v = int64(int8(f))
		case 16:
			v = int64(int16(f))
		case 32:
			v = int64(int32(f))
		default:
			v = int64(f)
		}
		return uint64(v) & mask(w2), true
	case "toui":
		f := fpVal(a[0], w1)
		var v uint64
		switch w2 {
		case 8:
			v = uint64(uint8(f))
		case 16:
			v = uint64(uint16(f))
		case 32:
			v = uint64(uint32(f))
		default:
			v = uint64(f)
		}
		return v & mask(w2), true
	case "fromsi":
		return fpBits(float64(sext64(a[0], w1)), w2), w2 == 64 || true
	case "fromui":
		return fpBits(float64(a[0]), w2), true
	}
	return 0, false
}
