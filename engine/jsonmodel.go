package main

// Model of encoding/json.Marshal (C20).  encoding/json works by reflection
// and cannot be executed symbolically; the model walks the Go type of the
// argument exactly as the documented rules prescribe (struct tags, embedded
// structs, Marshaler methods, nil pointers/slices/interfaces -> null) and
// produces a JSON tree whose leaves are terms.  The harness inspects the tree
// through the vhJ* functions (natively: encoding/json.Unmarshal of the real
// output), so every witness replay also validates the model.

import (
	"go/types"
	"reflect"
	"strings"

	"golang.org/x/tools/go/ssa"
)

type JKind int

const (
	JNull JKind = iota
	JBool
	JNum
	JString
	JArray
	JObject
)

type JNode struct {
	kind   JKind
	b      *Term // bool
	num    *Term // number
	signed bool
	str    StrV // string (bytes as given to the encoder)
	opaque bool // string whose content is not modelled
	elems  []*JNode
	keys   []string
	vals   []*JNode
}

func init() {
	intrinsics["encoding/json.Marshal"] = intrJSONMarshal
	for name, f := range map[string]intrinsicFn{
		"vhJSONParse": vhJSONParse,
		"vhJKind":     vhJKind,
		"vhJLen":      vhJLen,
		"vhJIndex":    vhJIndex,
		"vhJField":    vhJField,
		"vhJString":   vhJString,
		"vhJBool":     vhJBool,
		"vhJNum":      vhJNum,
	} {
		vhIntrinsics[name] = f
	}
}

var marshalerDummy = types.Typ[types.UnsafePointer]

func (e *Exec) jsonBytes(n *JNode) SliceV {
	b := e.newBacking(1, "json")
	b.cells[0] = e.ctx.Const(8, '?')
	b.opaque = "json text (inspect with vhJSONParse)"
	b.json = n
	return SliceV{b: b, off: e.i64(0), n: e.i64(1), cap: e.i64(1)}
}

func intrJSONMarshal(e *Exec, caller *Frame, fn *ssa.Function, args []Value) Value {
	v := args[0].(IfaceV)
	n, err := e.jsonOf(caller, v.t, v.v, 0)
	if err != nil {
		return TupleV{SliceV{off: e.i64(0), n: e.i64(0), cap: e.i64(0)}, *err}
	}
	return TupleV{e.jsonBytes(n), IfaceV{}}
}

func (e *Exec) jsonMarshaler(t types.Type) *ssa.Function {
	sel := e.P.prog.MethodSets.MethodSet(t).Lookup(nil, "MarshalJSON")
	if sel == nil {
		return nil
	}
	m := e.P.prog.MethodValue(sel)
	if m == nil {
		return nil
	}
	sig := m.Signature
	if sig.Params().Len() != 0 || sig.Results().Len() != 2 {
		return nil
	}
	return m
}

// jsonOf encodes value v of static/dynamic type t.
func (e *Exec) jsonOf(caller *Frame, t types.Type, v Value, depth int) (*JNode, *IfaceV) {
	if depth > 40 {
		e.unsupported("json model: nesting too deep")
	}
	if t == nil {
		return &JNode{kind: JNull}, nil
	}
	// Marshaler (value or pointer receiver reachable from an addressable value / pointer)
	if _, isPtr := t.Underlying().(*types.Pointer); isPtr {
		if p := v.(PtrV); p.IsNil() {
			return &JNode{kind: JNull}, nil
		}
	}
	if m := e.jsonMarshaler(t); m != nil {
		r := e.call(caller, m, []Value{v}).(TupleV)
		if errv := r[1].(IfaceV); errv.t != nil {
			return nil, &errv
		}
		out := r[0].(SliceV)
		if out.b == nil || out.b.json == nil {
			e.unsupported("json model: MarshalJSON of %v did not return json.Marshal output", t)
		}
		return out.b.json.(*JNode), nil
	}
	switch u := t.Underlying().(type) {
	case *types.Basic:
		switch {
		case u.Info()&types.IsString != 0:
			s := v.(StrV)
			n := &JNode{kind: JString, str: s}
			if s.b != nil && s.b.opaque != "" {
				n.opaque = true
			}
			return n, nil
		case u.Info()&types.IsBoolean != 0:
			return &JNode{kind: JBool, b: v.(*Term)}, nil
		case u.Info()&types.IsInteger != 0:
			return &JNode{kind: JNum, num: v.(*Term), signed: isSignedBasic(u)}, nil
		}
	case *types.Pointer:
		p := v.(PtrV)
		return e.jsonOf(caller, u.Elem(), e.load(p), depth+1)
	case *types.Interface:
		iv := v.(IfaceV)
		if iv.t == nil {
			return &JNode{kind: JNull}, nil
		}
		return e.jsonOf(caller, iv.t, iv.v, depth+1)
	case *types.Slice:
		s := v.(SliceV)
		if s.b == nil {
			return &JNode{kind: JNull}, nil
		}
		if b, ok := u.Elem().Underlying().(*types.Basic); ok && b.Kind() == types.Uint8 {
			e.unsupported("json model: []byte (base64) values")
		}
		cnt := int(e.ConcInt(s.n))
		n := &JNode{kind: JArray}
		for i := 0; i < cnt; i++ {
			el := e.loadIdx(s.b, e.ctx.Bin(OAdd, s.off, e.i64(int64(i))))
			c, err := e.jsonOf(caller, u.Elem(), el, depth+1)
			if err != nil {
				return nil, err
			}
			n.elems = append(n.elems, c)
		}
		return n, nil
	case *types.Struct:
		n := &JNode{kind: JObject}
		if err := e.jsonStruct(caller, n, u, v.(StructV), depth); err != nil {
			return nil, err
		}
		return n, nil
	}
	e.unsupported("json model: type %v", t)
	return nil, nil
}

func (e *Exec) jsonStruct(caller *Frame, n *JNode, u *types.Struct, sv StructV, depth int) *IfaceV {
	for i := 0; i < u.NumFields(); i++ {
		f := u.Field(i)
		tag := reflect.StructTag(u.Tag(i)).Get("json")
		name, opts, _ := strings.Cut(tag, ",")
		if tag == "-" {
			continue
		}
		if opts != "" {
			e.unsupported("json model: tag options %q", opts)
		}
		if f.Anonymous() && name == "" {
			// embedded struct without a name: fields are promoted
			if es, ok := f.Type().Underlying().(*types.Struct); ok && e.jsonMarshaler(f.Type()) == nil {
				if err := e.jsonStruct(caller, n, es, sv[i].(StructV), depth+1); err != nil {
					return err
				}
				continue
			}
		}
		if !f.Exported() {
			continue
		}
		if name == "" {
			name = f.Name()
		}
		c, err := e.jsonOf(caller, f.Type(), sv[i], depth+1)
		if err != nil {
			return err
		}
		// Go's rule for duplicate names at the same depth drops both; keep it simple:
		for _, k := range n.keys {
			if k == name {
				e.unsupported("json model: duplicate key %q", name)
			}
		}
		n.keys = append(n.keys, name)
		n.vals = append(n.vals, c)
	}
	return nil
}

// ---- harness-side inspection (vhJ is struct{ n interface{} }) ----

func (e *Exec) jWrap(n *JNode) Value {
	return StructV{IfaceV{t: marshalerDummy, v: n}}
}

func (e *Exec) jUnwrap(v Value) *JNode {
	sv := v.(StructV)
	iv := sv[0].(IfaceV)
	n, _ := iv.v.(*JNode)
	if n == nil {
		e.unsupported("vhJ value without a JSON node")
	}
	return n
}

func vhJSONParse(e *Exec, _ *Frame, fn *ssa.Function, args []Value) Value {
	s := args[0].(SliceV)
	if s.b == nil || s.b.json == nil {
		return TupleV{e.jWrap(&JNode{kind: JNull}), e.ctx.False}
	}
	return TupleV{e.jWrap(s.b.json.(*JNode)), e.ctx.True}
}

func vhJKind(e *Exec, _ *Frame, _ *ssa.Function, args []Value) Value {
	return e.i64(int64(e.jUnwrap(args[0]).kind))
}

func vhJLen(e *Exec, _ *Frame, _ *ssa.Function, args []Value) Value {
	n := e.jUnwrap(args[0])
	switch n.kind {
	case JArray:
		return e.i64(int64(len(n.elems)))
	case JObject:
		return e.i64(int64(len(n.keys)))
	}
	return e.i64(0)
}

func vhJIndex(e *Exec, _ *Frame, _ *ssa.Function, args []Value) Value {
	n := e.jUnwrap(args[0])
	i := int(e.ConcInt(args[1].(*Term)))
	if n.kind != JArray || i < 0 || i >= len(n.elems) {
		return e.jWrap(&JNode{kind: JNull})
	}
	return e.jWrap(n.elems[i])
}

func vhJField(e *Exec, _ *Frame, _ *ssa.Function, args []Value) Value {
	n := e.jUnwrap(args[0])
	name, ok := e.strConst(args[1].(StrV))
	if !ok {
		e.unsupported("vhJField with symbolic name")
	}
	if n.kind == JObject {
		for i, k := range n.keys {
			if k == name {
				return TupleV{e.jWrap(n.vals[i]), e.ctx.True}
			}
		}
	}
	return TupleV{e.jWrap(&JNode{kind: JNull}), e.ctx.False}
}

func vhJString(e *Exec, _ *Frame, _ *ssa.Function, args []Value) Value {
	n := e.jUnwrap(args[0])
	if n.kind != JString {
		return e.constStr("")
	}
	if n.opaque {
		return e.opaqueStr("json string with unmodelled content")
	}
	return n.str
}

func vhJBool(e *Exec, _ *Frame, _ *ssa.Function, args []Value) Value {
	n := e.jUnwrap(args[0])
	if n.kind != JBool {
		return e.ctx.False
	}
	return n.b
}

func vhJNum(e *Exec, _ *Frame, _ *ssa.Function, args []Value) Value {
	n := e.jUnwrap(args[0])
	if n.kind != JNum {
		return e.i64(0)
	}
	if n.num.w == 64 {
		return n.num
	}
	if n.signed {
		return e.ctx.SExt(n.num, 64)
	}
	return e.ctx.ZExt(n.num, 64)
}
