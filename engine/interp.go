package main

// Symbolic interpreter for go/ssa, structured after x/tools/go/ssa/interp.

import (
	"fmt"
	"go/constant"
	"go/token"
	"go/types"
	"math"
	"slices"
	"strconv"
	"strings"

	"golang.org/x/tools/go/ssa"
)

type deferred struct {
	fn   Value
	args []Value
	tail *deferred
	site ssa.Instruction
}

type Frame struct {
	e                *Exec
	caller           *Frame
	fn               *ssa.Function
	block, prevBlock *ssa.BasicBlock
	env              []Value
	idx              map[ssa.Value]int
	locals           []Value
	defers           *deferred
	result           Value
	panicking        bool
	panicVal         interface{}
	phitemps         []Value
	lib              bool // executing on behalf of library code (nearest /repo function is not a harness function)
}

type Thread struct {
	id     int
	e      *Exec
	status int // 0 runnable, 1 blocked, 2 done
}

func (fr *Frame) get(key ssa.Value) Value {
	switch key := key.(type) {
	case nil:
		return nil
	case *ssa.Function:
		return key
	case *ssa.Builtin:
		return key
	case *ssa.Const:
		return fr.e.constValue(key)
	case *ssa.Global:
		return PtrV{cell: fr.e.globalCell(key)}
	}
	if i, ok := fr.idx[key]; ok {
		if r := fr.env[i]; r != nil {
			return r
		}
	}
	panic(fmt.Sprintf("get: no value for %T: %v in %v", key, key.Name(), fr.fn))
}

func (e *Exec) globalCell(g *ssa.Global) *Value {
	if c, ok := e.globals[g]; ok {
		return c
	}
	// lazily created global of a package whose init we did not run
	T := g.Type().(*types.Pointer).Elem()
	var v Value
	if e.P.isRepoPkg(g.Pkg) {
		v = e.zero(T)
	} else if g.Pkg.Pkg.Path() == "time" && (g.Name() == "Local" || g.Name() == "UTC") {
		// the two well-known *time.Location values: opaque singletons recognised by Time.In
		if e.timeLocs == nil {
			e.timeLocs = map[string]*Value{}
		}
		lc := e.timeLocs[g.Name()]
		if lc == nil {
			lc = new(Value)
			*lc = StructV{e.ctx.Const(64, 0)}
			e.timeLocs[g.Name()] = lc
		}
		v = PtrV{cell: lc}
	} else if types.Identical(T, e.P.errorType) {
		// sentinel error of a dependency (io.EOF, context.Canceled, ...):
		// a distinct non-nil opaque error object
		v = e.sentinelError(g)
	} else if k := e.depGlobalConst(g); k != nil {
		v = k
	} else {
		v = &unsupportedGlobal{g}
	}
	c := new(Value)
	*c = v
	e.globals[g] = c
	return c
}

type unsupportedGlobal struct{ g *ssa.Global }

// depGlobalConst: a dependency's package-level variable that its init
// function initialises with a constant (e.g. mysql.PacketEOF = iEOF) and that
// nothing else in the package assigns.
func (e *Exec) depGlobalConst(g *ssa.Global) Value {
	init := g.Pkg.Func("init")
	if init == nil {
		return nil
	}
	var found *ssa.Const
	for _, m := range g.Pkg.Members {
		fn, ok := m.(*ssa.Function)
		if !ok {
			continue
		}
		for _, b := range fn.Blocks {
			for _, ins := range b.Instrs {
				st, ok := ins.(*ssa.Store)
				if !ok || st.Addr != ssa.Value(g) {
					continue
				}
				k, isConst := st.Val.(*ssa.Const)
				if !isConst || fn != init || found != nil {
					return nil
				}
				found = k
			}
		}
	}
	if found == nil {
		return nil
	}
	return e.constValue(found)
}

var sentinelTexts = map[string]string{
	"context.Canceled":         "context canceled",
	"context.DeadlineExceeded": "context deadline exceeded",
	"io.EOF":                   "EOF",
	"io.ErrUnexpectedEOF":      "unexpected EOF",
	"io.ErrClosedPipe":         "io: read/write on closed pipe",
	"strconv.ErrRange":         "value out of range",
	"strconv.ErrSyntax":        "invalid syntax",
	"encoding/hex.ErrLength":   "encoding/hex: odd length hex string",
}

func (e *Exec) sentinelError(g *ssa.Global) Value {
	// *errors.errorString with the documented text of the well-known sentinels; the text of any
	// other dependency sentinel is opaque (reading it ends the path as unsupported, never wrongly)
	var txt StrV
	if t, ok := sentinelTexts[g.Pkg.Pkg.Path()+"."+g.Name()]; ok {
		txt = e.constStr(t)
	} else {
		txt = e.opaqueStr("text of " + g.Pkg.Pkg.Path() + "." + g.Name())
	}
	st := StructV{txt}
	cell := new(Value)
	*cell = st
	return IfaceV{t: e.P.errorStringPtr, v: PtrV{cell: cell}}
}

func (e *Exec) constValue(c *ssa.Const) Value {
	if c.Value == nil {
		return e.zero(c.Type())
	}
	t := c.Type()
	if b, ok := t.Underlying().(*types.Basic); ok {
		switch {
		case b.Info()&types.IsBoolean != 0:
			return e.ctx.Bool(constant.BoolVal(c.Value))
		case b.Info()&types.IsString != 0:
			return e.constStr(constant.StringVal(c.Value))
		case b.Info()&types.IsInteger != 0:
			w := basicWidth(b)
			if isSignedBasic(b) {
				return e.ctx.Const(w, uint64(c.Int64()))
			}
			return e.ctx.Const(w, c.Uint64())
		case b.Info()&types.IsFloat != 0:
			f := c.Float64()
			if basicWidth(b) == 32 {
				return e.ctx.Const(32, uint64(math.Float32bits(float32(f))))
			}
			return e.ctx.Const(64, math.Float64bits(f))
		}
	}
	// constants of type-parameter-free composite zero handled above
	panic(abortf("unsupported", "constant %v of type %v", c, t))
}

// ---- loads and stores ----

func (e *Exec) load(p PtrV) Value {
	if p.cell != nil {
		v := *p.cell
		return e.copyVal(v)
	}
	if p.b != nil {
		return e.loadIdx(p.b, p.idx)
	}
	e.rtPanic("nil", "nil pointer dereference")
	return nil
}

func (e *Exec) loadIdx(b *Backing, idx *Term) Value {
	idx = e.norm(idx)
	if b.opaque != "" {
		e.unsupported("read of opaque data (%s)", b.opaque)
	}
	if idx.IsConst() {
		return e.copyVal(b.cells[idx.c])
	}
	if idx.cl {
		// index is an ite tree over constants: push the load through it
		if _, ok := b.cells[0].(*Term); ok {
			okAll := true
			r := e.ctx.mapLeaves(idx, func(k *Term) *Term {
				if k.c >= uint64(len(b.cells)) {
					okAll = false
					return e.ctx.Const(b.cells[0].(*Term).w, 0)
				}
				t, isT := b.cells[k.c].(*Term)
				if !isT {
					okAll = false
					return e.ctx.Const(b.cells[0].(*Term).w, 0)
				}
				return t
			})
			if okAll {
				return r
			}
		}
	}
	n := len(b.cells)
	if idx.ub < uint64(n-1) {
		n = int(idx.ub) + 1
	}
	// scalar cells: ite chain
	if _, ok := b.cells[0].(*Term); ok {
		res := b.cells[n-1].(*Term)
		for i := n - 2; i >= 0; i-- {
			c, ok := b.cells[i].(*Term)
			if !ok {
				e.unsupported("mixed cells in symbolic load")
			}
			res = e.ctx.Ite(e.ctx.Eq(idx, e.ctx.Const(idx.w, uint64(i))), c, res)
		}
		return res
	}
	k := e.ConcInt(idx)
	return e.copyVal(b.cells[k])
}

func (e *Exec) store(T types.Type, p PtrV, v Value) {
	if p.cell != nil {
		e.storeInto(T, p.cell, v)
		return
	}
	if p.b != nil {
		p.idx = e.norm(p.idx)
		if p.idx.IsConst() {
			e.storeInto(T, &p.b.cells[p.idx.c], v)
			return
		}
		if vt, ok := v.(*Term); ok {
			n := len(p.b.cells)
			if p.idx.ub < uint64(n-1) {
				n = int(p.idx.ub) + 1
			}
			for i := 0; i < n; i++ {
				old, ok := p.b.cells[i].(*Term)
				if !ok {
					e.unsupported("symbolic store into non-scalar cell")
				}
				p.b.cells[i] = e.ctx.Ite(e.ctx.Eq(p.idx, e.ctx.Const(p.idx.w, uint64(i))), vt, old)
			}
			return
		}
		k := e.ConcInt(p.idx)
		e.storeInto(T, &p.b.cells[k], v)
		return
	}
	e.rtPanic("nil", "nil pointer dereference (store)")
}

func (e *Exec) storeInto(T types.Type, addr *Value, v Value) {
	switch rhs := v.(type) {
	case StructV:
		lhs, ok := (*addr).(StructV)
		if !ok || len(lhs) != len(rhs) {
			*addr = e.copyVal(rhs)
			return
		}
		for i := range lhs {
			e.storeInto(nil, &lhs[i], rhs[i])
		}
	case *Backing:
		lhs, ok := (*addr).(*Backing)
		if !ok || lhs == nil || rhs == nil || len(lhs.cells) != len(rhs.cells) {
			*addr = e.copyVal(rhs)
			return
		}
		for i := range lhs.cells {
			e.storeInto(nil, &lhs.cells[i], rhs.cells[i])
		}
	default:
		*addr = v
	}
}

// noteModel records that a callee was replaced by a contract model (reported in the evidence).
func (e *Exec) noteModel(fn *ssa.Function) {
	if e.fnSeen[fn] {
		return
	}
	e.fnSeen[fn] = true
	if fn.Pkg != nil && e.P.isRepoPkg(fn.Pkg) {
		return // vh* harness API
	}
	if fn.Name() == "init" {
		return // dependency package initialisers are not run (their constant stores are read directly)
	}
	e.funcsSeen["model:"+fn.String()] = true
}

// ---- frames ----

func (e *Exec) callSSA(caller *Frame, fn *ssa.Function, args []Value, env []Value) Value {
	if fn.Blocks == nil {
		e.unsupported("no body for function %s", fn.String())
	}
	e.callDepth++
	if e.callDepth > 400 {
		panic(abortf("unwind", "call depth exceeded in %s", fn))
	}
	defer func() { e.callDepth-- }()
	if !e.fnSeen[fn] {
		e.fnSeen[fn] = true
		if fn.Pkg != nil && e.P.isRepoPkg(fn.Pkg) {
			if e.P.isHarnessFn(fn) {
				e.funcsSeen["harness:"+fn.String()] = true
			} else {
				e.funcsSeen[fn.String()] = true
			}
		}
	}
	fr := &Frame{e: e, caller: caller, fn: fn}
	if fn.Pkg != nil && e.P.isRepoPkg(fn.Pkg) {
		fr.lib = !e.P.isHarnessFnCached(fn)
	} else if caller != nil {
		fr.lib = caller.lib
	}
	fr.idx = e.P.valueIndex(fn)
	fr.env = make([]Value, len(fr.idx))
	fr.block = fn.Blocks[0]
	fr.locals = make([]Value, len(fn.Locals))
	for i, l := range fn.Locals {
		fr.locals[i] = e.zero(l.Type().(*types.Pointer).Elem())
		fr.env[fr.idx[l]] = PtrV{cell: &fr.locals[i]}
	}
	for i, p := range fn.Params {
		fr.env[fr.idx[p]] = args[i]
	}
	for i, fv := range fn.FreeVars {
		fr.env[fr.idx[fv]] = env[i]
	}
	savedFn, savedInstr := e.curFn, e.curInstr
	e.curFn = fn
	for fr.block != nil {
		fr.run()
	}
	e.curFn, e.curInstr = savedFn, savedInstr
	return fr.result
}

func (fr *Frame) run() {
	defer func() {
		if fr.block == nil {
			return // normal return
		}
		r := recover()
		switch r.(type) {
		case *TargetPanic:
			// Go-level panic: run defers, maybe recover
		default:
			// engine abort or failure: propagate untouched
			panic(r)
		}
		fr.panicking = true
		fr.panicVal = r
		fr.e.curFn = fr.fn
		fr.runDefers()
		fr.block = fr.fn.Recover
		if fr.block == nil {
			// recovered in a function without named results: return zero values
			fr.result = fr.zeroResults()
		}
	}()
	e := fr.e
	for {
		nonPhis := fr.executePhis()
		for _, instr := range nonPhis {
			e.steps++
			if e.steps > e.maxSteps {
				panic(abortf("steps", "step bound %d exceeded", e.maxSteps))
			}
			if e.steps&0xffff == 0 && e.steps > 2000000 && memPressure.Load() {
				panic(abortf("steps", "engine heap above its budget while this path had run %d steps", e.steps))
			}
			e.curInstr = instr
			e.curFn = fr.fn
			if e.trace {
				if v, ok := instr.(ssa.Value); ok {
					fmt.Printf("   %s: %s = %s\n", fr.fn.Name(), v.Name(), instr)
				} else {
					fmt.Printf("   %s: %s\n", fr.fn.Name(), instr)
				}
			}
			if fr.visit(instr) == 1 {
				return
			}
		}
	}
}

func (fr *Frame) zeroResults() Value {
	res := fr.fn.Signature.Results()
	switch res.Len() {
	case 0:
		return nil
	case 1:
		return fr.e.zero(res.At(0).Type())
	}
	return fr.e.zero(res)
}

func (fr *Frame) executePhis() []ssa.Instruction {
	firstNonPhi := -1
	for i, instr := range fr.block.Instrs {
		if _, ok := instr.(*ssa.Phi); !ok {
			firstNonPhi = i
			break
		}
	}
	nonPhis := fr.block.Instrs[firstNonPhi:]
	if firstNonPhi > 0 {
		phis := fr.block.Instrs[:firstNonPhi]
		predIndex := slices.Index(fr.block.Preds, fr.prevBlock)
		fr.phitemps = fr.phitemps[:0]
		for _, phi := range phis {
			fr.phitemps = append(fr.phitemps, fr.get(phi.(*ssa.Phi).Edges[predIndex]))
		}
		for i, phi := range phis {
			fr.env[fr.idx[phi.(*ssa.Phi)]] = fr.phitemps[i]
		}
	}
	return nonPhis
}

func (fr *Frame) runDefer(d *deferred) {
	var ok bool
	defer func() {
		if !ok {
			r := recover()
			if _, isTP := r.(*TargetPanic); !isTP {
				panic(r)
			}
			fr.panicking = true
			fr.panicVal = r
		}
	}()
	fr.e.call(fr, d.fn, d.args)
	ok = true
}

func (fr *Frame) runDefers() {
	for d := fr.defers; d != nil; d = d.tail {
		fr.runDefer(d)
	}
	fr.defers = nil
	if fr.panicking {
		panic(fr.panicVal)
	}
}

func (e *Exec) doRecover(caller *Frame) Value {
	if caller != nil && !caller.panicking && caller.caller != nil && caller.caller.panicking {
		caller.caller.panicking = false
		p := caller.caller.panicVal
		caller.caller.panicVal = nil
		if tp, ok := p.(*TargetPanic); ok {
			if tp.kind == "explicit" {
				return tp.val
			}
			// runtime error: opaque error value
			st := StructV{e.constStr("runtime error: " + tp.msg)}
			cell := new(Value)
			*cell = st
			return IfaceV{t: e.P.errorStringPtr, v: PtrV{cell: cell}}
		}
	}
	return IfaceV{}
}

// visit returns 1 on return, 0 otherwise.
func (fr *Frame) visit(instr ssa.Instruction) int {
	e := fr.e
	switch instr := instr.(type) {
	case *ssa.DebugRef:
	case *ssa.UnOp:
		x := fr.get(instr.X)
		if instr.Op == token.MUL && fr.lib && e.ss != nil && e.ss.race.active {
			e.raceAccess(fr, x.(PtrV), false, instr)
		}
		fr.env[fr.idx[instr]] = e.unop(instr, x)
	case *ssa.BinOp:
		fr.env[fr.idx[instr]] = e.binop(instr.Op, instr.X.Type(), fr.get(instr.X), fr.get(instr.Y))
	case *ssa.Call:
		fn, args := fr.prepareCall(&instr.Call)
		if fn == nil {
			fr.env[fr.idx[instr]] = fr.zeroOf(instr.Type())
		} else {
			fr.env[fr.idx[instr]] = e.call(fr, fn, args)
		}
	case *ssa.ChangeInterface:
		fr.env[fr.idx[instr]] = fr.get(instr.X)
	case *ssa.ChangeType:
		fr.env[fr.idx[instr]] = fr.get(instr.X)
	case *ssa.Convert:
		fr.env[fr.idx[instr]] = e.conv(instr.Type(), instr.X.Type(), fr.get(instr.X))
	case *ssa.SliceToArrayPointer:
		fr.env[fr.idx[instr]] = e.sliceToArrayPointer(instr.Type(), fr.get(instr.X).(SliceV))
	case *ssa.MakeInterface:
		fr.env[fr.idx[instr]] = IfaceV{t: instr.X.Type(), v: fr.get(instr.X)}
	case *ssa.Extract:
		fr.env[fr.idx[instr]] = fr.get(instr.Tuple).(TupleV)[instr.Index]
	case *ssa.Slice:
		fr.env[fr.idx[instr]] = e.sliceOp(instr, fr.get(instr.X), fr.intArgV(instr.Low), fr.intArgV(instr.High), fr.intArgV(instr.Max))
	case *ssa.Return:
		switch len(instr.Results) {
		case 0:
		case 1:
			fr.result = fr.get(instr.Results[0])
		default:
			var res TupleV
			for _, r := range instr.Results {
				res = append(res, fr.get(r))
			}
			fr.result = res
		}
		fr.block = nil
		return 1
	case *ssa.RunDefers:
		fr.runDefers()
	case *ssa.Panic:
		v := fr.get(instr.X)
		panic(&TargetPanic{val: v, kind: "explicit", msg: e.describePanic(v), site: e.curSite()})
	case *ssa.Send:
		e.chanSend(fr.get(instr.Chan).(*ChanObj), fr.get(instr.X))
	case *ssa.Store:
		if fr.lib && e.ss != nil && e.ss.race.active {
			e.raceAccess(fr, fr.get(instr.Addr).(PtrV), true, instr)
		}
		e.store(instr.Addr.Type().Underlying().(*types.Pointer).Elem(), fr.get(instr.Addr).(PtrV), fr.get(instr.Val))
	case *ssa.If:
		succ := 1
		if e.Branch(fr.get(instr.Cond).(*Term)) {
			succ = 0
		}
		fr.prevBlock, fr.block = fr.block, fr.block.Succs[succ]
		return 2
	case *ssa.Jump:
		fr.prevBlock, fr.block = fr.block, fr.block.Succs[0]
		return 2
	case *ssa.Defer:
		fn, args := fr.prepareCall(&instr.Call)
		if fn != nil {
			fr.defers = &deferred{fn: fn, args: args, tail: fr.defers, site: instr}
		}
	case *ssa.Go:
		fn, args := fr.prepareCall(&instr.Call)
		e.spawn(fr, fn, args, instr)
	case *ssa.MakeChan:
		n := e.ConcInt(fr.intArg(instr.Size))
		e.nextObj++
		fr.env[fr.idx[instr]] = &ChanObj{cap: int(n), id: e.nextObj, et: instr.Type().Underlying().(*types.Chan).Elem()}
	case *ssa.Alloc:
		T := instr.Type().(*types.Pointer).Elem()
		if instr.Heap {
			cell := new(Value)
			*cell = e.zero(T)
			fr.env[fr.idx[instr]] = PtrV{cell: cell}
		} else {
			p := fr.env[fr.idx[instr]].(PtrV)
			*p.cell = e.zero(T)
		}
	case *ssa.MakeSlice:
		n := e.ConcInt(fr.intArg(instr.Len))
		c := e.ConcInt(fr.intArg(instr.Cap))
		if n < 0 || c < n {
			e.rtPanic("slice", "makeslice: len out of range")
		}
		if c > 1<<22 {
			e.unsupported("make of %d elements", c)
		}
		tElt := instr.Type().Underlying().(*types.Slice).Elem()
		b := e.newBacking(int(c), "make:"+fr.fn.String())
		for i := range b.cells {
			b.cells[i] = e.zero(tElt)
		}
		fr.env[fr.idx[instr]] = SliceV{b: b, off: e.i64(0), n: e.i64(n), cap: e.i64(c)}
	case *ssa.MakeMap:
		mt := instr.Type().Underlying().(*types.Map)
		e.nextObj++
		fr.env[fr.idx[instr]] = &MapObj{kt: mt.Key(), vt: mt.Elem(), id: e.nextObj}
	case *ssa.Range:
		fr.env[fr.idx[instr]] = e.rangeIter(fr.get(instr.X), instr.X.Type())
	case *ssa.Next:
		fr.env[fr.idx[instr]] = e.iterNext(fr.get(instr.Iter).(*IterV), instr)
	case *ssa.FieldAddr:
		p := fr.get(instr.X).(PtrV)
		if p.cell == nil {
			if p.b != nil {
				k := e.ConcInt(p.idx)
				p = PtrV{cell: &p.b.cells[k]}
			} else {
				e.rtPanic("nil", "nil pointer dereference (field)")
			}
		}
		st, ok := (*p.cell).(StructV)
		if !ok {
			e.unsupported("FieldAddr on %T", *p.cell)
		}
		fr.env[fr.idx[instr]] = PtrV{cell: &st[instr.Field]}
	case *ssa.Field:
		fr.env[fr.idx[instr]] = fr.get(instr.X).(StructV)[instr.Field]
	case *ssa.IndexAddr:
		fr.env[fr.idx[instr]] = e.indexAddr(fr.get(instr.X), fr.intArg(instr.Index), instr.X.Type())
	case *ssa.Index:
		fr.env[fr.idx[instr]] = e.indexOp(fr.get(instr.X), fr.intArg(instr.Index), instr.X.Type())
	case *ssa.Lookup:
		fr.env[fr.idx[instr]] = e.lookup(instr, fr.get(instr.X), fr.get(instr.Index))
	case *ssa.MapUpdate:
		e.mapUpdate(fr.get(instr.Map).(*MapObj), fr.get(instr.Key), fr.get(instr.Value))
	case *ssa.TypeAssert:
		fr.env[fr.idx[instr]] = e.typeAssert(instr, fr.get(instr.X).(IfaceV))
	case *ssa.MakeClosure:
		var bindings []Value
		for _, b := range instr.Bindings {
			bindings = append(bindings, fr.get(b))
		}
		fr.env[fr.idx[instr]] = &Closure{instr.Fn.(*ssa.Function), bindings}
	case *ssa.Select:
		fr.env[fr.idx[instr]] = e.selectOp(fr, instr)
	default:
		e.unsupported("instruction %T", instr)
	}
	return 0
}

// intArg evaluates an integer operand and widens it to 64 bits according to
// its static signedness.
func (fr *Frame) intArg(v ssa.Value) *Term {
	t := fr.get(v).(*Term)
	if t.w == 64 {
		return t
	}
	b, _ := underBasic(v.Type())
	if b != nil && isSignedBasic(b) {
		return fr.e.ctx.SExt(t, 64)
	}
	return fr.e.ctx.ZExt(t, 64)
}

func (fr *Frame) intArgV(v ssa.Value) Value {
	if v == nil {
		return nil
	}
	return fr.intArg(v)
}

func (fr *Frame) zeroOf(t types.Type) Value {
	if tup, ok := t.(*types.Tuple); ok {
		if tup.Len() == 0 {
			return nil
		}
	}
	return fr.e.zero(t)
}

func (e *Exec) describePanic(v Value) string {
	if iv, ok := v.(IfaceV); ok {
		if s, ok := iv.v.(StrV); ok {
			if cs, ok := e.strConst(s); ok {
				return cs
			}
		}
		if iv.t != nil {
			return "panic(" + iv.t.String() + ")"
		}
	}
	return "panic"
}

// prepareCall resolves the callee and argument values. fn == nil means the
// call is a modelled no-op (logging).
func (fr *Frame) prepareCall(call *ssa.CallCommon) (fn Value, args []Value) {
	e := fr.e
	v := fr.get(call.Value)
	if call.Method == nil {
		fn = v
	} else {
		if e.P.isNoopIface(call.Value.Type()) {
			return nil, nil
		}
		recv := v.(IfaceV)
		if recv.t == nil {
			e.rtPanic("nil", "method "+call.Method.Name()+" invoked on nil interface")
		}
		f := e.P.prog.LookupMethod(recv.t, call.Method.Pkg(), call.Method.Name())
		if f == nil {
			e.unsupported("no method %s for dynamic type %v", call.Method.Name(), recv.t)
		}
		fn = f
		args = append(args, recv.v)
	}
	for _, a := range call.Args {
		args = append(args, fr.get(a))
	}
	return
}

func (e *Exec) call(caller *Frame, fn Value, args []Value) Value {
	switch fn := fn.(type) {
	case *ssa.Function:
		if fn == nil {
			e.rtPanic("nil", "call of nil function")
		}
		if h := e.P.intrinsic(fn); h != nil {
			e.noteModel(fn)
			return h(e, caller, fn, args)
		}
		return e.callSSA(caller, fn, args, nil)
	case *Closure:
		if h := e.P.intrinsic(fn.fn); h != nil {
			e.noteModel(fn.fn)
			return h(e, caller, fn.fn, args)
		}
		return e.callSSA(caller, fn.fn, args, fn.env)
	case *ssa.Builtin:
		return e.callBuiltin(caller, fn, args)
	case FuncNil:
		e.rtPanic("nil", "call of nil function")
	}
	e.unsupported("cannot call %T", fn)
	return nil
}

// ---- operators ----

func (e *Exec) unop(instr *ssa.UnOp, x Value) Value {
	switch instr.Op {
	case token.MUL: // load
		return e.load(x.(PtrV))
	case token.ARROW:
		v, ok := e.chanRecv(x.(*ChanObj))
		if instr.CommaOk {
			return TupleV{v, e.ctx.Bool(ok)}
		}
		return v
	case token.NOT:
		return e.ctx.BNot(x.(*Term))
	case token.SUB:
		if b, ok := underBasic(instr.X.Type()); ok && isFloatBasic(b) {
			xt := x.(*Term) // IEEE negation flips the sign bit (NaN included)
			return e.ctx.Bin(OXor, xt, e.ctx.Const(xt.w, uint64(1)<<uint(xt.w-1)))
		}
		return e.ctx.Neg(x.(*Term))
	case token.XOR:
		return e.ctx.Not(x.(*Term))
	}
	e.unsupported("unop %v", instr.Op)
	return nil
}

func (e *Exec) binop(op token.Token, t types.Type, x, y Value) Value {
	c := e.ctx
	switch xv := x.(type) {
	case *Term:
		yv, ok := y.(*Term)
		if !ok {
			e.unsupported("binop operand %T", y)
		}
		b, _ := underBasic(t)
		if b != nil && isFloatBasic(b) && xv.w > 0 {
			// IEEE-754 semantics through the solver's FloatingPoint theory (fp.go); bit equality
			// is not float equality (NaN, +-0)
			fw := strconv.Itoa(xv.w)
			switch op {
			case token.EQL:
				return c.FP("eq"+fw, 0, xv, yv)
			case token.NEQ:
				return c.BNot(c.FP("eq"+fw, 0, xv, yv))
			case token.LSS:
				return c.FP("lt"+fw, 0, xv, yv)
			case token.LEQ:
				return c.FP("le"+fw, 0, xv, yv)
			case token.GTR:
				return c.FP("lt"+fw, 0, yv, xv)
			case token.GEQ:
				return c.FP("le"+fw, 0, yv, xv)
			case token.ADD:
				return c.FP("add"+fw, xv.w, xv, yv)
			case token.SUB:
				return c.FP("sub"+fw, xv.w, xv, yv)
			case token.MUL:
				return c.FP("mul"+fw, xv.w, xv, yv)
			case token.QUO:
				return c.FP("div"+fw, xv.w, xv, yv)
			}
			e.unsupported("floating-point operation %v", op)
		}
		if xv.w == 0 { // bool
			switch op {
			case token.EQL:
				return c.Eq(xv, yv)
			case token.NEQ:
				return c.BNot(c.Eq(xv, yv))
			case token.AND:
				return c.BAnd(xv, yv)
			case token.OR:
				return c.BOr(xv, yv)
			}
			e.unsupported("bool binop %v", op)
		}
		signed := b != nil && isSignedBasic(b)
		switch op {
		case token.ADD:
			return c.Bin(OAdd, xv, yv)
		case token.SUB:
			return c.Bin(OSub, xv, yv)
		case token.MUL:
			return c.Bin(OMul, xv, yv)
		case token.QUO, token.REM:
			if !e.Branch(c.BNot(c.Eq(yv, c.Const(yv.w, 0)))) {
				e.rtPanic("divide", "integer divide by zero")
			}
			if signed {
				if op == token.QUO {
					return c.Bin(OSDiv, xv, yv)
				}
				return c.Bin(OSRem, xv, yv)
			}
			if op == token.QUO {
				return c.Bin(OUDiv, xv, yv)
			}
			return c.Bin(OURem, xv, yv)
		case token.AND:
			return c.Bin(OAnd, xv, yv)
		case token.OR:
			return c.Bin(OOr, xv, yv)
		case token.XOR:
			return c.Bin(OXor, xv, yv)
		case token.AND_NOT:
			return c.Bin(OAnd, xv, c.Not(yv))
		case token.SHL, token.SHR:
			return e.shift(op, signed, xv, yv)
		case token.EQL:
			return c.Eq(xv, yv)
		case token.NEQ:
			return c.BNot(c.Eq(xv, yv))
		case token.LSS:
			if signed {
				return c.Cmp(OSlt, xv, yv)
			}
			return c.Cmp(OUlt, xv, yv)
		case token.LEQ:
			if signed {
				return c.Cmp(OSle, xv, yv)
			}
			return c.Cmp(OUle, xv, yv)
		case token.GTR:
			if signed {
				return c.Cmp(OSlt, yv, xv)
			}
			return c.Cmp(OUlt, yv, xv)
		case token.GEQ:
			if signed {
				return c.Cmp(OSle, yv, xv)
			}
			return c.Cmp(OUle, yv, xv)
		}
	case StrV:
		yv := y.(StrV)
		switch op {
		case token.ADD:
			return e.strConcat(xv, yv)
		case token.EQL:
			return e.strEq(xv, yv)
		case token.NEQ:
			return c.BNot(e.strEq(xv, yv))
		case token.LSS, token.LEQ, token.GTR, token.GEQ:
			cmp := e.bytesCompare(e.strAsSlice(xv), e.strAsSlice(yv)) // -1,0,1 as 64-bit
			z := e.i64(0)
			switch op {
			case token.LSS:
				return c.Cmp(OSlt, cmp, z)
			case token.LEQ:
				return c.Cmp(OSle, cmp, z)
			case token.GTR:
				return c.Cmp(OSlt, z, cmp)
			default:
				return c.Cmp(OSle, z, cmp)
			}
		}
	}
	switch op {
	case token.EQL:
		return e.eqVal(t, x, y)
	case token.NEQ:
		return c.BNot(e.eqVal(t, x, y))
	}
	e.unsupported("binop %v on %T", op, x)
	return nil
}

func (e *Exec) shift(op token.Token, signed bool, x, y *Term) *Term {
	c := e.ctx
	w := x.w
	// bring the count to x's width, saturating
	var cnt *Term
	var over *Term = c.False
	if y.w == w {
		cnt = y
	} else if y.w < w {
		cnt = c.ZExt(y, w)
	} else {
		cnt = c.Extract(y, w-1, 0)
		over = c.BNot(c.Cmp(OUlt, y, c.Const(y.w, uint64(w))))
	}
	var r *Term
	switch {
	case op == token.SHL:
		r = c.Bin(OShl, x, cnt)
		r = c.Ite(over, c.Const(w, 0), r)
	case signed:
		r = c.Bin(OAShr, x, cnt)
		r = c.Ite(over, c.Bin(OAShr, x, c.Const(w, uint64(w-1))), r)
	default:
		r = c.Bin(OLShr, x, cnt)
		r = c.Ite(over, c.Const(w, 0), r)
	}
	return r
}

// eqVal: structural equality as a boolean term.
func (e *Exec) eqVal(t types.Type, x, y Value) *Term {
	c := e.ctx
	switch xv := x.(type) {
	case *Term:
		return c.Eq(xv, y.(*Term))
	case StrV:
		return e.strEq(xv, y.(StrV))
	case PtrV:
		yv := y.(PtrV)
		if xv.cell != nil || yv.cell != nil {
			return c.Bool(xv.cell == yv.cell)
		}
		if xv.b != nil || yv.b != nil {
			if xv.b != yv.b {
				return c.False
			}
			return c.Eq(xv.idx, yv.idx)
		}
		return c.True
	case IfaceV:
		yv := y.(IfaceV)
		if xv.t == nil || yv.t == nil {
			return c.Bool(xv.t == nil && yv.t == nil)
		}
		if !types.Identical(xv.t, yv.t) {
			return c.False
		}
		return e.eqVal(xv.t, xv.v, yv.v)
	case StructV:
		yv := y.(StructV)
		st := t.Underlying().(*types.Struct)
		r := c.True
		for i := range xv {
			r = c.BAnd(r, e.eqVal(st.Field(i).Type(), xv[i], yv[i]))
		}
		return r
	case *Backing: // array
		yv := y.(*Backing)
		at := t.Underlying().(*types.Array)
		r := c.True
		for i := range xv.cells {
			r = c.BAnd(r, e.eqVal(at.Elem(), xv.cells[i], yv.cells[i]))
		}
		return r
	case *MapObj:
		yv, _ := y.(*MapObj)
		return c.Bool(xv == yv)
	case *ChanObj:
		yv, _ := y.(*ChanObj)
		return c.Bool(xv == yv)
	case SliceV:
		// only comparison with nil is legal
		yv := y.(SliceV)
		if yv.b == nil {
			return c.Bool(xv.b == nil)
		}
		return c.Bool(yv.b == nil && xv.b == nil)
	case FuncNil:
		_, ok := y.(FuncNil)
		return c.Bool(ok)
	case *ssa.Function, *Closure:
		_, ok := y.(FuncNil)
		return c.Bool(!ok && false)
	}
	e.unsupported("equality on %T", x)
	return nil
}

func (e *Exec) strAsSlice(s StrV) SliceV { return SliceV{b: s.b, off: s.off, n: s.n, cap: s.n} }

func (e *Exec) strEq(x, y StrV) *Term {
	c := e.ctx
	if !(x.n.IsConst() && y.n.IsConst()) {
		if !e.Branch(c.Eq(x.n, y.n)) {
			return c.False
		}
		n := e.ConcInt(x.n)
		x.n, y.n = e.i64(n), e.i64(n)
	}
	if x.n.c != y.n.c {
		return c.False
	}
	n := int(x.n.c)
	r := c.True
	for i := 0; i < n; i++ {
		a := e.sliceElem(e.strAsSlice(x), i)
		b := e.sliceElem(e.strAsSlice(y), i)
		r = c.BAnd(r, c.Eq(a, b))
		if r == c.False {
			break
		}
	}
	return r
}

// sliceElem loads element i (concrete index relative to the slice) as a scalar term.
func (e *Exec) sliceElem(s SliceV, i int) *Term {
	idx := e.ctx.Bin(OAdd, s.off, e.i64(int64(i)))
	v := e.loadIdx(s.b, idx)
	t, ok := v.(*Term)
	if !ok {
		e.unsupported("sliceElem on non-scalar")
	}
	return t
}

func (e *Exec) strConcat(x, y StrV) StrV {
	nx := int(e.ConcInt(x.n))
	ny := int(e.ConcInt(y.n))
	if nx == 0 {
		return y
	}
	if ny == 0 {
		return x
	}
	b := e.newBacking(nx+ny, "strcat")
	for i := 0; i < nx; i++ {
		b.cells[i] = e.sliceElem(e.strAsSlice(x), i)
	}
	for i := 0; i < ny; i++ {
		b.cells[nx+i] = e.sliceElem(e.strAsSlice(y), i)
	}
	if x.b != nil && x.b.opaque != "" {
		b.opaque = x.b.opaque
	}
	if y.b != nil && y.b.opaque != "" {
		b.opaque = y.b.opaque
	}
	return StrV{b: b, off: e.i64(0), n: e.i64(int64(nx + ny))}
}

// bytesCompare returns a 64-bit term in {-1,0,1} (lexicographic compare).
func (e *Exec) bytesCompare(x, y SliceV) *Term {
	c := e.ctx
	nx := int(e.ConcInt(x.n))
	ny := int(e.ConcInt(y.n))
	n := nx
	if ny < n {
		n = ny
	}
	var tail *Term
	switch {
	case nx < ny:
		tail = e.i64(-1)
	case nx > ny:
		tail = e.i64(1)
	default:
		tail = e.i64(0)
	}
	res := tail
	for i := n - 1; i >= 0; i-- {
		a, b := e.sliceElem(x, i), e.sliceElem(y, i)
		res = c.Ite(c.Cmp(OUlt, a, b), e.i64(-1), c.Ite(c.Cmp(OUlt, b, a), e.i64(1), res))
	}
	return res
}

// ---- conversions ----

func (e *Exec) conv(dst, src types.Type, x Value) Value {
	c := e.ctx
	ud, us := dst.Underlying(), src.Underlying()
	switch ud := ud.(type) {
	case *types.Basic:
		if ud.Info()&types.IsString != 0 {
			switch xs := x.(type) {
			case StrV:
				return xs
			case SliceV: // []byte or []rune -> string
				if sl, ok := us.(*types.Slice); ok {
					if b, ok := sl.Elem().Underlying().(*types.Basic); ok && b.Kind() != types.Byte && b.Kind() != types.Uint8 {
						e.unsupported("[]rune to string")
					}
				}
				return e.bytesToString(xs)
			case *Term: // integer -> string (rune)
				if xs.IsConst() && xs.c < 0x80 {
					return e.constStr(string(rune(xs.c)))
				}
				e.unsupported("rune to string conversion")
			}
		}
		if ud.Kind() == types.UnsafePointer {
			e.unsupported("unsafe.Pointer conversion")
		}
		xt, ok := x.(*Term)
		if !ok {
			e.unsupported("convert %T to %v", x, dst)
		}
		sb, ok := us.(*types.Basic)
		if !ok {
			e.unsupported("convert from %v", src)
		}
		dw := basicWidth(ud)
		if isFloatBasic(ud) || isFloatBasic(sb) {
			if isFloatBasic(ud) && isFloatBasic(sb) {
				if basicWidth(sb) == dw {
					return xt
				}
				if dw == 64 {
					if xt.IsConst() {
						return c.Const(64, math.Float64bits(float64(math.Float32frombits(uint32(xt.c)))))
					}
					return c.FP("f32to64", 64, xt)
				}
				if xt.op == OFP && xt.name == "f32to64" {
					return xt.a[0]
				}
				if xt.IsConst() {
					return c.Const(32, uint64(math.Float32bits(float32(math.Float64frombits(xt.c)))))
				}
				return c.FP("f64to32", 32, xt)
			}
			if xt.IsConst() && isFloatBasic(ud) {
				var f float64
				if isSignedBasic(sb) {
					f = float64(sext64(xt.c, xt.w))
				} else {
					f = float64(xt.c)
				}
				if dw == 32 {
					return c.Const(32, uint64(math.Float32bits(float32(f))))
				}
				return c.Const(64, math.Float64bits(f))
			}
			if isFloatBasic(ud) { // integer -> float, round to nearest even
				if xt.w == 0 {
					e.unsupported("bool to float conversion")
				}
				nm := "fromui"
				if isSignedBasic(sb) {
					nm = "fromsi"
				}
				return c.FP(fmt.Sprintf("%s%d_%d", nm, xt.w, dw), dw, xt)
			}
			// float -> integer, truncation toward zero (out of range: see fp.go)
			nm := "toui"
			if isSignedBasic(ud) {
				nm = "tosi"
			}
			return c.FP(fmt.Sprintf("%s%d_%d", nm, xt.w, dw), dw, xt)
		}
		if xt.w == 0 || dw == 0 {
			return xt
		}
		if dw <= xt.w {
			return c.Extract(xt, dw-1, 0)
		}
		if isSignedBasic(sb) {
			return c.SExt(xt, dw)
		}
		return c.ZExt(xt, dw)
	case *types.Slice:
		// string -> []byte / []rune
		if xs, ok := x.(StrV); ok {
			if b, ok := ud.Elem().Underlying().(*types.Basic); ok && (b.Kind() == types.Uint8) {
				return e.stringToBytes(xs)
			}
			e.unsupported("string to []rune")
		}
		return x
	case *types.Pointer:
		return x
	}
	return x
}

func (e *Exec) bytesToString(s SliceV) StrV {
	if s.b == nil {
		return StrV{off: e.i64(0), n: e.i64(0)}
	}
	n := int(e.ConcInt(s.n))
	b := e.newBacking(n, "string")
	b.flt = s.b.flt
	b.opaque = s.b.opaque
	for i := 0; i < n; i++ {
		if s.b.opaque != "" {
			b.cells[i] = e.ctx.Const(8, 0)
		} else {
			b.cells[i] = e.sliceElem(s, i)
		}
	}
	return StrV{b: b, off: e.i64(0), n: e.i64(int64(n))}
}

func (e *Exec) stringToBytes(s StrV) SliceV {
	n := int(e.ConcInt(s.n))
	b := e.newBacking(n, "bytes")
	if s.b != nil {
		b.flt = s.b.flt
		b.opaque = s.b.opaque
	}
	for i := 0; i < n; i++ {
		if b.opaque != "" {
			b.cells[i] = e.ctx.Const(8, 0)
		} else {
			b.cells[i] = e.sliceElem(e.strAsSlice(s), i)
		}
	}
	return SliceV{b: b, off: e.i64(0), n: e.i64(int64(n)), cap: e.i64(int64(n))}
}

func (e *Exec) sliceToArrayPointer(t types.Type, s SliceV) Value {
	at := t.Underlying().(*types.Pointer).Elem().Underlying().(*types.Array)
	n := at.Len()
	if !e.Branch(e.ctx.Cmp(OSle, e.i64(n), s.n)) {
		e.rtPanic("slice", "slice to array pointer: length too short")
	}
	if s.b == nil {
		return PtrV{}
	}
	off := e.ConcInt(s.off)
	if off == 0 && int64(len(s.b.cells)) == n {
		cell := new(Value)
		*cell = s.b
		return PtrV{cell: cell}
	}
	// view: a backing sharing the same cell storage
	view := &Backing{cells: s.b.cells[off : off+n : off+n], id: s.b.id, origin: s.b.origin}
	cell := new(Value)
	*cell = view
	return PtrV{cell: cell}
}

// ---- indexing and slicing ----

func (e *Exec) checkIndex(idx, n *Term) {
	// unsigned comparison also rejects negative indexes
	if !e.Branch(e.ctx.Cmp(OUlt, idx, n)) {
		e.rtPanic("index", fmt.Sprintf("index out of range [%v] with length %v", idx, n))
	}
}

func (e *Exec) to64(t *Term, signed bool) *Term {
	if t.w == 64 {
		return t
	}
	if signed {
		return e.ctx.SExt(t, 64)
	}
	return e.ctx.ZExt(t, 64)
}

func (e *Exec) idx64(idx *Term, t types.Type) *Term {
	if idx.w == 64 {
		return idx
	}
	b, _ := underBasic(t)
	return e.to64(idx, b != nil && isSignedBasic(b))
}

func (e *Exec) indexAddr(x Value, idx *Term, xt types.Type) Value {
	idx = e.to64idx(idx)
	switch x := x.(type) {
	case SliceV:
		e.checkIndex(idx, x.n)
		abs := e.ctx.Bin(OAdd, x.off, idx)
		if abs.IsConst() {
			return PtrV{cell: &x.b.cells[abs.c], arr: x.b}
		}
		return PtrV{b: x.b, idx: abs}
	case PtrV: // *array
		if x.cell == nil {
			e.rtPanic("nil", "nil pointer dereference (index)")
		}
		arr := (*x.cell).(*Backing)
		e.checkIndex(idx, e.i64(int64(len(arr.cells))))
		if idx.IsConst() {
			return PtrV{cell: &arr.cells[idx.c], arr: arr}
		}
		return PtrV{b: arr, idx: idx}
	}
	e.unsupported("IndexAddr on %T", x)
	return nil
}

func (e *Exec) to64idx(idx *Term) *Term {
	if idx.w == 64 {
		return idx
	}
	// index operands narrower than int: all Go integer index types are
	// converted; treat as signed unless width says otherwise is handled by caller
	return e.ctx.SExt(idx, 64)
}

func (e *Exec) indexOp(x Value, idx *Term, xt types.Type) Value {
	idx = e.to64idx(idx)
	switch x := x.(type) {
	case *Backing: // array value
		e.checkIndex(idx, e.i64(int64(len(x.cells))))
		return e.loadIdx(x, idx)
	case StrV:
		e.checkIndex(idx, x.n)
		return e.loadIdx(x.b, e.ctx.Bin(OAdd, x.off, idx))
	}
	e.unsupported("Index on %T", x)
	return nil
}

func (e *Exec) sliceOp(instr *ssa.Slice, x, lo, hi, max Value) Value {
	c := e.ctx
	var off, n, cp *Term
	var b *Backing
	isStr := false
	switch x := x.(type) {
	case SliceV:
		b, off, n, cp = x.b, x.off, x.n, x.cap
	case StrV:
		b, off, n, cp = x.b, x.off, x.n, x.n
		isStr = true
	case PtrV:
		if x.cell == nil {
			e.rtPanic("nil", "slice of nil array pointer")
		}
		arr := (*x.cell).(*Backing)
		b, off = arr, e.i64(0)
		n = e.i64(int64(len(arr.cells)))
		cp = n
	default:
		e.unsupported("Slice on %T", x)
	}
	l := e.i64(0)
	if lo != nil {
		l = e.to64idx(lo.(*Term))
	}
	h := n
	if hi != nil {
		h = e.to64idx(hi.(*Term))
	}
	m := cp
	if max != nil {
		m = e.to64idx(max.(*Term))
	}
	limit := cp
	if isStr {
		limit = n
	}
	// 0 <= l <= h <= m <= cap   (unsigned comparisons reject negatives)
	ok := c.BAnd(c.Cmp(OUle, l, h), c.BAnd(c.Cmp(OUle, h, m), c.Cmp(OUle, m, limit)))
	if !e.Branch(ok) {
		e.rtPanic("slice", fmt.Sprintf("slice bounds out of range [%v:%v] with capacity %v", l, h, limit))
	}
	l, h, m, off = e.norm(l), e.norm(h), e.norm(m), e.norm(off)
	if isStr {
		return StrV{b: b, off: c.Bin(OAdd, off, l), n: c.Bin(OSub, h, l)}
	}
	if b == nil {
		return SliceV{off: e.i64(0), n: e.i64(0), cap: e.i64(0)}
	}
	return SliceV{b: b, off: c.Bin(OAdd, off, l), n: c.Bin(OSub, h, l), cap: c.Bin(OSub, m, l)}
}

// ---- maps ----

func (e *Exec) mapFind(m *MapObj, key Value) int {
	if m == nil {
		return -1
	}
	for i := range m.keys {
		if e.Branch(e.eqVal(m.kt, m.keys[i], key)) {
			return i
		}
	}
	return -1
}

func (e *Exec) lookup(instr *ssa.Lookup, x, key Value) Value {
	switch x := x.(type) {
	case StrV:
		return e.indexOp(x, key.(*Term), instr.X.Type())
	case *MapObj:
		vt := instr.X.Type().Underlying().(*types.Map).Elem()
		i := e.mapFind(x, key)
		var v Value
		if i >= 0 {
			v = e.copyVal(x.vals[i])
		} else {
			v = e.zero(vt)
		}
		if instr.CommaOk {
			return TupleV{v, e.ctx.Bool(i >= 0)}
		}
		return v
	}
	e.unsupported("Lookup on %T", x)
	return nil
}

func (e *Exec) mapUpdate(m *MapObj, key, val Value) {
	if m == nil {
		e.rtPanic("nilmap", "assignment to entry in nil map")
	}
	i := e.mapFind(m, key)
	if i >= 0 {
		m.vals[i] = e.copyVal(val)
		return
	}
	m.keys = append(m.keys, e.copyVal(key))
	m.vals = append(m.vals, e.copyVal(val))
}

func (e *Exec) mapDelete(m *MapObj, key Value) {
	i := e.mapFind(m, key)
	if i >= 0 {
		m.keys = append(m.keys[:i:i], m.keys[i+1:]...)
		m.vals = append(m.vals[:i:i], m.vals[i+1:]...)
	}
}

func (e *Exec) rangeIter(x Value, t types.Type) Value {
	switch x := x.(type) {
	case *MapObj:
		it := &IterV{m: x}
		if x != nil {
			it.keys = append([]Value{}, x.keys...)
			it.vals = append([]Value{}, x.vals...)
			// iteration order is unspecified in Go: explore orders when asked to
			if n := len(it.keys); n > 1 && e.P.mapOrders {
				if e.Sched(2) == 1 {
					slices.Reverse(it.keys)
					slices.Reverse(it.vals)
				}
			}
		}
		return it
	case StrV:
		return &IterV{s: x}
	}
	e.unsupported("range over %T", x)
	return nil
}

func (e *Exec) iterNext(it *IterV, instr *ssa.Next) Value {
	if instr.IsString {
		n := it.s.n
		if !e.Branch(e.ctx.Cmp(OSlt, e.i64(int64(it.i)), n)) {
			return TupleV{e.ctx.False, e.i64(0), e.ctx.Const(32, 0)}
		}
		b := e.sliceElem(e.strAsSlice(it.s), it.i)
		if !e.Branch(e.ctx.Cmp(OUlt, b, e.ctx.Const(8, 0x80))) {
			e.unsupported("range over non-ASCII string")
		}
		i := it.i
		it.i++
		return TupleV{e.ctx.True, e.i64(int64(i)), e.ctx.ZExt(b, 32)}
	}
	mt := instr.Iter.(*ssa.Range).X.Type().Underlying().(*types.Map)
	for it.i < len(it.keys) {
		k := it.keys[it.i]
		it.i++
		// entry may have been deleted during iteration
		present := false
		for j := range it.m.keys {
			if it.m.keys[j] == k || e.eqVal(mt.Key(), it.m.keys[j], k) == e.ctx.True {
				present = true
				return TupleV{e.ctx.True, e.copyVal(k), e.copyVal(it.m.vals[j])}
			}
		}
		_ = present
	}
	return TupleV{e.ctx.False, e.zero(mt.Key()), e.zero(mt.Elem())}
}

// ---- type assertions ----

func (e *Exec) typeAssert(instr *ssa.TypeAssert, x IfaceV) Value {
	ok := false
	if x.t != nil {
		if it, isIface := instr.AssertedType.Underlying().(*types.Interface); isIface {
			ok = types.Implements(x.t, it) || e.implementsViaMethodSet(x.t, it)
		} else {
			ok = types.Identical(x.t, instr.AssertedType)
		}
	}
	var v Value
	if ok {
		if _, isIface := instr.AssertedType.Underlying().(*types.Interface); isIface {
			v = x
		} else {
			v = x.v
		}
	} else {
		if !instr.CommaOk {
			e.rtPanic("typeassert", fmt.Sprintf("interface conversion: %v is not %v", x.t, instr.AssertedType))
		}
		v = e.zero(instr.AssertedType)
	}
	if instr.CommaOk {
		return TupleV{v, e.ctx.Bool(ok)}
	}
	return v
}

func (e *Exec) implementsViaMethodSet(t types.Type, it *types.Interface) bool {
	ms := e.P.prog.MethodSets.MethodSet(t)
	for i := 0; i < it.NumMethods(); i++ {
		m := it.Method(i)
		if ms.Lookup(m.Pkg(), m.Name()) == nil {
			return false
		}
	}
	return true
}

// ---- builtins ----

func (e *Exec) callBuiltin(caller *Frame, fn *ssa.Builtin, args []Value) Value {
	c := e.ctx
	switch fn.Name() {
	case "len":
		switch x := args[0].(type) {
		case StrV:
			return x.n
		case SliceV:
			return x.n
		case *MapObj:
			if x == nil {
				return e.i64(0)
			}
			return e.i64(int64(len(x.keys)))
		case *ChanObj:
			if x == nil {
				return e.i64(0)
			}
			e.chanPeek(x)
			return e.i64(int64(len(x.q)))
		case *Backing:
			return e.i64(int64(len(x.cells)))
		case PtrV:
			if x.cell != nil {
				return e.i64(int64(len((*x.cell).(*Backing).cells)))
			}
		}
	case "cap":
		switch x := args[0].(type) {
		case SliceV:
			return x.cap
		case *ChanObj:
			if x == nil {
				return e.i64(0)
			}
			return e.i64(int64(x.cap))
		case *Backing:
			return e.i64(int64(len(x.cells)))
		}
	case "append":
		return e.appendOp(args[0].(SliceV), args[1], fn)
	case "copy":
		return e.copyOp(args[0].(SliceV), args[1])
	case "delete":
		if m := args[0].(*MapObj); m != nil {
			e.mapDelete(m, args[1])
		}
		return nil
	case "close":
		e.chanClose(args[0].(*ChanObj))
		return nil
	case "print", "println":
		return nil
	case "recover":
		return e.doRecover(caller)
	case "ssa:wrapnilchk":
		if p, ok := args[0].(PtrV); ok && p.IsNil() {
			e.rtPanic("nil", "value method called using nil pointer")
		}
		return args[0]
	case "min", "max":
		x, y := args[0].(*Term), args[1].(*Term)
		sig := fn.Type().(*types.Signature)
		b, _ := underBasic(sig.Params().At(0).Type())
		op := OUlt
		if b != nil && isSignedBasic(b) {
			op = OSlt
		}
		lt := c.Cmp(op, x, y)
		if fn.Name() == "min" {
			return c.Ite(lt, x, y)
		}
		return c.Ite(lt, y, x)
	case "clear":
		switch x := args[0].(type) {
		case *MapObj:
			if x != nil {
				x.keys, x.vals = nil, nil
			}
			return nil
		}
	}
	e.unsupported("builtin %s on %T", fn.Name(), args[0])
	return nil
}

func (e *Exec) appendOp(s SliceV, t Value, fn *ssa.Builtin) Value {
	var src SliceV
	switch t := t.(type) {
	case SliceV:
		src = t
	case StrV:
		src = e.strAsSlice(t)
	default:
		e.unsupported("append of %T", t)
	}
	if src.b == nil || (src.n.IsConst() && src.n.c == 0) {
		return s
	}
	nt := int(e.ConcInt(src.n))
	if nt == 0 {
		return s
	}
	ns := int(e.ConcInt(s.n))
	cs := int(e.ConcInt(s.cap))
	// snapshot source elements first (src may alias dst)
	vals := make([]Value, nt)
	srcOpaque := src.b.opaque
	for i := 0; i < nt; i++ {
		if srcOpaque != "" {
			vals[i] = e.ctx.Const(8, '?')
		} else {
			vals[i] = e.copyVal(e.loadIdx(src.b, e.ctx.Bin(OAdd, src.off, e.i64(int64(i)))))
		}
	}
	if ns+nt <= cs && s.b != nil {
		if srcOpaque != "" {
			s.b.opaque = srcOpaque
		}
		off := int(e.ConcInt(s.off))
		for i := 0; i < nt; i++ {
			s.b.cells[off+ns+i] = vals[i]
		}
		return SliceV{b: s.b, off: s.off, n: e.i64(int64(ns + nt)), cap: s.cap}
	}
	newcap := cs
	need := ns + nt
	if need > 2*cs {
		newcap = need
	} else if cs < 256 {
		newcap = 2 * cs
	} else {
		for newcap < need {
			newcap += (newcap + 3*256) / 4
		}
	}
	var elemT types.Type
	if fn != nil {
		if sig, ok := fn.Type().(*types.Signature); ok {
			if sl, ok := sig.Params().At(0).Type().Underlying().(*types.Slice); ok {
				elemT = sl.Elem()
			}
		}
	}
	b := e.newBacking(newcap, "append")
	if srcOpaque != "" {
		b.opaque = srcOpaque
	} else if s.b != nil && s.b.opaque != "" {
		b.opaque = s.b.opaque
	}
	for i := 0; i < ns; i++ {
		if s.b.opaque != "" {
			b.cells[i] = e.ctx.Const(8, '?')
			continue
		}
		b.cells[i] = e.copyVal(e.loadIdx(s.b, e.ctx.Bin(OAdd, s.off, e.i64(int64(i)))))
	}
	for i := 0; i < nt; i++ {
		b.cells[ns+i] = vals[i]
	}
	for i := need; i < newcap; i++ {
		if elemT != nil {
			b.cells[i] = e.zero(elemT)
		} else {
			b.cells[i] = e.zeroLike(vals[0])
		}
	}
	return SliceV{b: b, off: e.i64(0), n: e.i64(int64(need)), cap: e.i64(int64(newcap))}
}

func (e *Exec) zeroLike(v Value) Value {
	switch v := v.(type) {
	case *Term:
		return e.ctx.Const(v.w, 0)
	case StrV:
		return StrV{off: e.i64(0), n: e.i64(0)}
	case SliceV:
		return SliceV{off: e.i64(0), n: e.i64(0), cap: e.i64(0)}
	case PtrV:
		return PtrV{}
	case IfaceV:
		return IfaceV{}
	case StructV:
		n := make(StructV, len(v))
		for i := range v {
			n[i] = e.zeroLike(v[i])
		}
		return n
	case *Backing:
		b := e.newBacking(len(v.cells), "array")
		for i := range b.cells {
			b.cells[i] = e.zeroLike(v.cells[i])
		}
		return b
	case *MapObj:
		return (*MapObj)(nil)
	}
	return nil
}

func (e *Exec) copyOp(dst SliceV, srcv Value) Value {
	var src SliceV
	switch t := srcv.(type) {
	case SliceV:
		src = t
	case StrV:
		src = e.strAsSlice(t)
	}
	c := e.ctx
	// n = min(len(dst), len(src))
	var n int64
	if dst.n.IsConst() && src.n.IsConst() {
		n = int64(dst.n.c)
		if int64(src.n.c) < n {
			n = int64(src.n.c)
		}
	} else {
		if e.Branch(c.Cmp(OSle, dst.n, src.n)) {
			n = e.ConcInt(dst.n)
		} else {
			n = e.ConcInt(src.n)
		}
	}
	if n == 0 {
		return e.i64(0)
	}
	if src.b.flt != nil && dst.off.IsConst() && dst.off.c == 0 {
		dst.b.flt = src.b.flt
	}
	vals := make([]Value, n)
	if src.b.opaque != "" {
		// contents not modelled: taint the destination
		dst.b.opaque = src.b.opaque
		for i := range vals {
			vals[i] = c.Const(8, '?')
		}
	} else {
		for i := int64(0); i < n; i++ {
			vals[i] = e.copyVal(e.loadIdx(src.b, c.Bin(OAdd, src.off, e.i64(i))))
		}
	}
	for i := int64(0); i < n; i++ {
		idx := c.Bin(OAdd, dst.off, e.i64(i))
		if idx.IsConst() {
			dst.b.cells[idx.c] = vals[i]
		} else {
			e.store(nil, PtrV{b: dst.b, idx: idx}, vals[i])
		}
	}
	return e.i64(n)
}

// helper used by intrinsics: build a fresh byte slice from terms
func (e *Exec) bytesFromTerms(ts []*Term, origin string) SliceV {
	b := e.newBacking(len(ts), origin)
	for i, t := range ts {
		b.cells[i] = t
	}
	n := e.i64(int64(len(ts)))
	return SliceV{b: b, off: e.i64(0), n: n, cap: n}
}

func (e *Exec) strFromTerms(ts []*Term, origin string) StrV {
	b := e.newBacking(len(ts), origin)
	for i, t := range ts {
		b.cells[i] = t
	}
	return StrV{b: b, off: e.i64(0), n: e.i64(int64(len(ts)))}
}

// sliceTerms returns the elements of a byte slice/string with concretized length.
func (e *Exec) sliceTerms(s SliceV) []*Term {
	if s.b == nil {
		return nil
	}
	n := int(e.ConcInt(s.n))
	out := make([]*Term, n)
	for i := 0; i < n; i++ {
		out[i] = e.sliceElem(s, i)
	}
	return out
}

func typeString(t types.Type) string {
	return strings.ReplaceAll(t.String(), "github.com/Breeze0806/gobinlog", "gobinlog")
}
