package main

// Native replay of solver models against the real build (go test -overlay).

import (
	"bufio"
	"bytes"
	"encoding/json"
	"fmt"
	"go/ast"
	"go/parser"
	"go/token"
	"os"
	"os/exec"
	"path/filepath"
	"sort"
	"strings"
	"sync"
	"time"
)

type Tape struct {
	ID      string    `json:"id"`
	Harness string    `json:"harness"`
	Params  []int     `json:"params"`
	Nondet  []uint64  `json:"nondet"`
	Chooses []int64   `json:"chooses"`
	Expect  string    `json:"expect"`
	Sched   bool      `json:"sched"`
	Env     []int64   `json:"env,omitempty"`    // order of environment events to stage natively (only for library-priority counterexamples)
	STrace  []TraceEv `json:"strace,omitempty"` // full schedule trace (library-level visible operations + environment events) to stage natively
	Race    bool      `json:"race,omitempty"`   // replay under the race detector

	obs     []ObsVal
	failure *Failure
	bound   bool // probe of a path that ended at its step / allocation bound
}

type NativeResult struct {
	ID         string   `json:"id"`
	Harness    string   `json:"harness"`
	Fails      []string `json:"fails"`
	Panic      string   `json:"panic"`
	AssumeFail bool     `json:"assume_fail"`
	Underflow  bool     `json:"tape_underflow"`
	Unused     int      `json:"tape_unused"`
	Covers     []string `json:"covers"`
	Observes   []ObsVal `json:"observes"`
	Deadlock   bool     `json:"deadlock"`
	Skipped    string   `json:"skipped"`
	GateBroken bool     `json:"gate_broken"`
	RaceSeen   bool     `json:"race_seen"`
}

var harnessPkgs = []struct{ dir, rel, imp string }{
	{"gobinlog", "", repoModule},
	{"replication", "replication", repoModule + "/replication"},
}

// prepareHarnessDir materialises the harness sources (incl. the generated
// API files) under genDir/harness and returns that directory.
func prepareHarnessDir(genDir string) (string, error) {
	hdir := filepath.Join(genDir, "harness")
	src := filepath.Join(verifDir, "harness")
	for _, hp := range harnessPkgs {
		dst := filepath.Join(hdir, hp.dir)
		if err := os.MkdirAll(dst, 0o755); err != nil {
			return "", err
		}
		ents, _ := os.ReadDir(filepath.Join(src, hp.dir))
		for _, ent := range ents {
			if !strings.HasSuffix(ent.Name(), ".go") {
				continue
			}
			data, err := os.ReadFile(filepath.Join(src, hp.dir, ent.Name()))
			if err != nil {
				return "", err
			}
			if err := os.WriteFile(filepath.Join(dst, ent.Name()), data, 0o644); err != nil {
				return "", err
			}
		}
		tmpls, _ := os.ReadDir(filepath.Join(src, "common"))
		for _, ent := range tmpls {
			if !strings.HasSuffix(ent.Name(), ".tmpl") {
				continue
			}
			data, err := os.ReadFile(filepath.Join(src, "common", ent.Name()))
			if err != nil {
				return "", err
			}
			out := strings.ReplaceAll(string(data), "package PKG", "package "+hp.dir)
			name := strings.TrimSuffix(ent.Name(), ".tmpl")
			if err := os.WriteFile(filepath.Join(dst, name), []byte(out), 0o644); err != nil {
				return "", err
			}
		}
	}
	return hdir, nil
}

func writeOverlayJSON(genDir, hdir string) (string, error) {
	return writeOverlayJSONx(genDir, hdir, true)
}

func writeOverlayJSONx(genDir, hdir string, instrument bool) (string, error) {
	repl := map[string]string{}
	if instrument {
		for k, v := range instrumentLibrary(genDir) {
			repl[k] = v
		}
	}
	for _, hp := range harnessPkgs {
		ents, _ := os.ReadDir(filepath.Join(hdir, hp.dir))
		for _, ent := range ents {
			if strings.HasSuffix(ent.Name(), ".go") {
				repl[filepath.Join(repoDir, hp.rel, ent.Name())] = filepath.Join(hdir, hp.dir, ent.Name())
			}
		}
	}
	data, _ := json.Marshal(map[string]interface{}{"Replace": repl})
	p := filepath.Join(genDir, "overlay.json")
	if !instrument {
		p = filepath.Join(genDir, "overlay_plain.json")
	}
	return p, os.WriteFile(p, data, 0o644)
}

func goEnv() []string {
	env := os.Environ()
	env = append(env, "GOFLAGS=-mod=mod", "GOPROXY=off", "GOSUMDB=off", "GOTOOLCHAIN=local", "CGO_ENABLED=0")
	return env
}

// replayTZ: native replays run in a zone that differs from UTC and has daylight saving time, so
// that "Local" is distinguishable from UTC and from any fixed offset captured at process start.
func replayTZ() string {
	if _, err := os.Stat("/usr/share/zoneinfo/America/New_York"); err == nil {
		return "America/New_York"
	}
	return "Asia/Shanghai"
}

func harnessPkgOf(hdir, harness string) string {
	for _, hp := range harnessPkgs {
		ents, _ := os.ReadDir(filepath.Join(hdir, hp.dir))
		for _, ent := range ents {
			data, err := os.ReadFile(filepath.Join(hdir, hp.dir, ent.Name()))
			if err == nil && bytes.Contains(data, []byte("func "+harness+"(")) {
				return hp.dir
			}
		}
	}
	return ""
}

// runNative builds the test binaries and runs all tapes.
func runNative(genDir, hdir string, tapes []*Tape) (map[string]*NativeResult, error) {
	ov, err := writeOverlayJSON(genDir, hdir)
	if err != nil {
		return nil, err
	}
	need := map[string]bool{}
	for _, t := range tapes {
		if p := harnessPkgOf(hdir, t.Harness); p != "" {
			need[p] = true
		}
	}
	var raceTapes []*Tape
	{
		var plain []*Tape
		for _, t := range tapes {
			if t.Race {
				raceTapes = append(raceTapes, t)
			} else {
				plain = append(plain, t)
			}
		}
		tapes = plain
	}
	tapeFile := filepath.Join(genDir, "tapes.json")
	data, _ := json.Marshal(tapes)
	if err := os.WriteFile(tapeFile, data, 0o644); err != nil {
		return nil, err
	}
	results := map[string]*NativeResult{}
	var mu sync.Mutex
	var wg sync.WaitGroup
	var firstErr error
	for _, hp := range harnessPkgs {
		if !need[hp.dir] {
			continue
		}
		wg.Add(1)
		go func(dir, imp string) {
			defer wg.Done()
			bin := filepath.Join(genDir, dir+".test")
			cmd := exec.Command("go", "test", "-c", "-tags", "verif", "-vet=off", "-overlay", ov, "-o", bin, imp)
			cmd.Dir = repoDir
			cmd.Env = goEnv()
			out, err := cmd.CombinedOutput()
			if err != nil {
				// the instrumented copy does not build (unexpected construct): fall back to the plain sources
				if ov2, e2 := writeOverlayJSONx(genDir, hdir, false); e2 == nil {
					cmd2 := exec.Command("go", "test", "-c", "-tags", "verif", "-vet=off", "-overlay", ov2, "-o", bin, imp)
					cmd2.Dir = repoDir
					cmd2.Env = goEnv()
					out, err = cmd2.CombinedOutput()
				}
			}
			if err != nil {
				mu.Lock()
				firstErr = fmt.Errorf("go test -c %s: %v\n%s", imp, err, out)
				mu.Unlock()
				return
			}
			// the tapes of this package, sharded over several processes when there are many (schedule-dependent
			// counterexamples wait for watchdogs and gates); tapes of one root stay together
			var mine []*Tape
			for _, t := range tapes {
				if harnessPkgOf(hdir, t.Harness) == dir {
					mine = append(mine, t)
				}
			}
			nsh := 1
			if len(mine) > 24 {
				nsh = 8
			}
			shards := make([][]*Tape, nsh)
			rootShard := map[string]int{}
			for _, t := range mine {
				root := t.ID
				if i := strings.IndexByte(root, '#'); i >= 0 {
					root = root[:i]
				}
				k, ok := rootShard[root]
				if !ok {
					k = len(rootShard) % nsh
					rootShard[root] = k
				}
				shards[k] = append(shards[k], t)
			}
			var swg sync.WaitGroup
			for k, sh := range shards {
				if len(sh) == 0 {
					continue
				}
				swg.Add(1)
				go func(k int, sh []*Tape) {
					defer swg.Done()
					// a panic in a goroutine of the library cannot be recovered by the replay harness: it
					// takes the whole process down. The tape that was running is the first one without a
					// result; it is recorded as panicked and the rest of the shard is run again.
					pending := sh
					for round := 0; len(pending) > 0 && round <= len(sh); round++ {
						tf := filepath.Join(genDir, fmt.Sprintf("tapes_%s_%d_%d.json", dir, k, round))
						d, _ := json.Marshal(pending)
						os.WriteFile(tf, d, 0o644)
						run := exec.Command(bin, "-test.run", "^TestVHReplay$", "-test.timeout", "900s")
						run.Dir = filepath.Join(repoDir)
						run.Env = append(goEnv(), "VH_TAPES="+tf, "TZ="+replayTZ())
						var stdout bytes.Buffer
						run.Stdout = &stdout
						run.Stderr = &stdout
						done := make(chan error, 1)
						go func() { done <- run.Run() }()
						timedOut := false
						select {
						case <-done:
						case <-time.After(960 * time.Second):
							run.Process.Kill()
							timedOut = true
						}
						crashLine := ""
						sc := bufio.NewScanner(&stdout)
						sc.Buffer(make([]byte, 1<<20), 1<<26)
						for sc.Scan() {
							line := sc.Text()
							if strings.HasPrefix(line, "VHRESULT ") {
								var r NativeResult
								if err := json.Unmarshal([]byte(line[9:]), &r); err == nil {
									mu.Lock()
									results[r.ID] = &r
									mu.Unlock()
								}
							} else if crashLine == "" && (strings.HasPrefix(line, "panic: ") || strings.HasPrefix(line, "fatal error: ")) && !strings.Contains(line, "test timed out") {
								crashLine = line
							}
						}
						first := -1
						mu.Lock()
						for i, t := range pending {
							if results[t.ID] == nil {
								first = i
								break
							}
						}
						if first >= 0 && crashLine != "" && !timedOut {
							results[pending[first].ID] = &NativeResult{ID: pending[first].ID, Panic: "process crashed: " + crashLine}
						}
						mu.Unlock()
						if first < 0 || crashLine == "" || timedOut {
							break
						}
						pending = pending[first+1:]
					}
				}(k, sh)
			}
			swg.Wait()
		}(hp.dir, hp.imp)
	}
	wg.Wait()
	if keep := os.Getenv("GOSYM_KEEP"); keep != "" {
		exec.Command("cp", "-r", genDir, keep).Run() // debugging aid: tapes, overlay, instrumented sources, test binaries
	}
	if len(raceTapes) > 0 && firstErr == nil {
		if err := runRaceTapes(genDir, hdir, ov, raceTapes, results); err != nil {
			firstErr = err
		}
	}
	return results, firstErr
}

// runRaceTapes replays data-race counterexamples under the Go race detector: one process per
// tape, built with -race; the race is reproduced when the detector reports one.
func runRaceTapes(genDir, hdir, ov string, tapes []*Tape, results map[string]*NativeResult) error {
	bins := map[string]string{}
	for _, hp := range harnessPkgs {
		needed := false
		for _, t := range tapes {
			if harnessPkgOf(hdir, t.Harness) == hp.dir {
				needed = true
			}
		}
		if !needed {
			continue
		}
		bin := filepath.Join(genDir, hp.dir+".race.test")
		cmd := exec.Command("go", "test", "-c", "-race", "-tags", "verif", "-vet=off", "-overlay", ov, "-o", bin, hp.imp)
		cmd.Dir = repoDir
		cmd.Env = append(goEnv(), "CGO_ENABLED=1")
		if out, err := cmd.CombinedOutput(); err != nil {
			return fmt.Errorf("go test -c -race %s: %v\n%s", hp.imp, err, out)
		}
		bins[hp.dir] = bin
	}
	var mu sync.Mutex
	var wg sync.WaitGroup
	sem := make(chan struct{}, 8)
	for i, t := range tapes {
		bin := bins[harnessPkgOf(hdir, t.Harness)]
		if bin == "" {
			continue
		}
		wg.Add(1)
		go func(i int, t *Tape, bin string) {
			defer wg.Done()
			sem <- struct{}{}
			defer func() { <-sem }()
			tf := filepath.Join(genDir, fmt.Sprintf("racetape%d.json", i))
			data, _ := json.Marshal([]*Tape{t})
			os.WriteFile(tf, data, 0o644)
			run := exec.Command(bin, "-test.run", "^TestVHReplay$", "-test.timeout", "300s")
			run.Dir = repoDir
			run.Env = append(goEnv(), "VH_TAPES="+tf, "TZ="+replayTZ(), "GORACE=halt_on_error=0")
			out, _ := run.CombinedOutput()
			res := &NativeResult{ID: t.ID, Harness: t.Harness}
			for _, line := range strings.Split(string(out), "\n") {
				if strings.HasPrefix(line, "VHRESULT ") {
					var r NativeResult
					if json.Unmarshal([]byte(line[9:]), &r) == nil {
						res = &r
					}
				}
			}
			res.RaceSeen = strings.Contains(string(out), "WARNING: DATA RACE")
			mu.Lock()
			results[t.ID] = res
			mu.Unlock()
		}(i, t, bin)
	}
	wg.Wait()
	return nil
}

// compareWitness checks a natively replayed witness against the engine's
// evaluation of the same run (translator validation).
func compareWitness(tp *Tape, r *NativeResult) string {
	if r.Skipped != "" {
		return ""
	}
	if r.Deadlock {
		return "native run did not finish (watchdog) on a path the engine completed"
	}
	if len(r.Fails) > 0 {
		return "native run fails assertion " + r.Fails[0] + " on a path the engine completed"
	}
	if r.Panic != "" {
		return "native run panicked: " + r.Panic
	}
	if r.AssumeFail {
		return "native run violated an assumption the engine path satisfied"
	}
	if r.Underflow {
		return "native run consumed more nondeterministic inputs than the engine path"
	}
	if r.Unused != 0 {
		return fmt.Sprintf("native run left %d tape entries unused", r.Unused)
	}
	if tp.Sched {
		return "" // scheduling choices cannot be forced natively: observations are not compared
	}
	if len(r.Observes) != len(tp.obs) {
		return fmt.Sprintf("observe count differs: engine %d native %d", len(tp.obs), len(r.Observes))
	}
	for i, o := range tp.obs {
		n := r.Observes[i]
		if o.Label != n.Label {
			return fmt.Sprintf("observe %d label differs: engine %q native %q", i, o.Label, n.Label)
		}
		if o.Opaque {
			continue
		}
		if len(o.Vals) != len(n.Vals) {
			return fmt.Sprintf("observe %q length differs: engine %d native %d", o.Label, len(o.Vals), len(n.Vals))
		}
		for j := range o.Vals {
			if o.Vals[j] != n.Vals[j] {
				return fmt.Sprintf("observe %q[%d] differs: engine %d native %d", o.Label, j, o.Vals[j], n.Vals[j])
			}
		}
	}
	return ""
}

func cmdReplay(args []string) int {
	if len(args) < 1 {
		fmt.Fprintln(os.Stderr, "usage: gosym replay <file>")
		return 2
	}
	data, err := os.ReadFile(args[0])
	if err != nil {
		fmt.Fprintln(os.Stderr, err)
		return 2
	}
	var rec struct {
		Property string `json:"property"`
		Tape     *Tape  `json:"tape"`
	}
	if err := json.Unmarshal(data, &rec); err != nil || rec.Tape == nil {
		fmt.Fprintln(os.Stderr, "bad replay file")
		return 2
	}
	genDir, _ := os.MkdirTemp("", "gosym-replay-")
	defer os.RemoveAll(genDir)
	hdir, err := prepareHarnessDir(genDir)
	if err != nil {
		fmt.Fprintln(os.Stderr, err)
		return 2
	}
	res, err := runNative(genDir, hdir, []*Tape{rec.Tape})
	if err != nil {
		fmt.Fprintln(os.Stderr, err)
		return 2
	}
	r := res[rec.Tape.ID]
	if r == nil {
		fmt.Println("no result")
		return 2
	}
	out, _ := json.MarshalIndent(r, "", " ")
	fmt.Println(string(out))
	if ((len(r.Fails) > 0 || r.Panic != "" || r.Deadlock) && !r.GateBroken && !rec.Tape.Race) || (rec.Tape.Race && r.RaceSeen) {
		fmt.Printf("VIOLATION property=%s replay=%s\n", rec.Property, args[0])
		return 1
	}
	return 0
}

// ---- instrumentation of the library sources for schedule staging ----

// instrumentLibrary returns overlay replacements (original path -> instrumented copy) for the
// non-test Go files of the root package of /repo: a call vhPoint("file:line") is inserted (on the same
// line, so that line numbers stay what they are) in front of every statement of library code that
// performs a visible operation - channel send / receive / close, select, range over a channel, and
// Do / Wait / Add / Done / Lock / Unlock / RLock / RUnlock method calls - and vhThreadStart("lib:file:line")
// at the start of every goroutine the library starts.  The copies exist only for the native replay.
func instrumentLibrary(genDir string) map[string]string {
	out := map[string]string{}
	ents, err := os.ReadDir(repoDir)
	if err != nil {
		return out
	}
	dst := filepath.Join(genDir, "instr")
	os.MkdirAll(dst, 0o755)
	for _, ent := range ents {
		name := ent.Name()
		if ent.IsDir() || !strings.HasSuffix(name, ".go") || strings.HasSuffix(name, "_test.go") || strings.HasPrefix(name, "zz_") {
			continue
		}
		path := filepath.Join(repoDir, name)
		src, err := os.ReadFile(path)
		if err != nil {
			continue
		}
		res, n := instrumentSource(name, src)
		if n == 0 {
			continue
		}
		p := filepath.Join(dst, name)
		if os.WriteFile(p, res, 0o644) == nil {
			out[path] = p
		}
	}
	return out
}

type insertion struct {
	off  int
	text string
}

func instrumentSource(name string, src []byte) ([]byte, int) {
	fset := token.NewFileSet()
	file, err := parser.ParseFile(fset, name, src, 0)
	if err != nil {
		return src, 0
	}
	var ins []insertion
	syncMethods := map[string]bool{"Do": true, "Wait": true, "Add": true, "Done": true, "Lock": true, "Unlock": true, "RLock": true, "RUnlock": true}
	// opLine: line of the first visible operation among the statement's own expressions (0: none)
	var opLine func(n ast.Node) int
	opLine = func(n ast.Node) int {
		line := 0
		ast.Inspect(n, func(x ast.Node) bool {
			if line != 0 || x == nil {
				return false
			}
			switch v := x.(type) {
			case *ast.FuncLit, *ast.BlockStmt:
				return false // other statement lists are handled on their own
			case *ast.UnaryExpr:
				if v.Op == token.ARROW {
					line = fset.Position(v.OpPos).Line
					return false
				}
			case *ast.SendStmt:
				line = fset.Position(v.Arrow).Line
				return false
			case *ast.CallExpr:
				if id, ok := v.Fun.(*ast.Ident); ok && id.Name == "close" && len(v.Args) == 1 {
					line = fset.Position(v.Lparen).Line
					return false
				}
				if sel, ok := v.Fun.(*ast.SelectorExpr); ok && syncMethods[sel.Sel.Name] {
					line = fset.Position(v.Lparen).Line
					return false
				}
			}
			return true
		})
		return line
	}
	visitList := func(list []ast.Stmt) {
		for _, st := range list {
			line := 0
			switch v := st.(type) {
			case *ast.SelectStmt:
				line = fset.Position(v.Select).Line
			case *ast.ExprStmt, *ast.AssignStmt, *ast.ReturnStmt, *ast.SendStmt, *ast.DeclStmt, *ast.IncDecStmt:
				line = opLine(st)
			case *ast.IfStmt:
				if v.Init != nil {
					line = opLine(v.Init)
				}
				if line == 0 {
					line = opLine(v.Cond)
				}
			case *ast.SwitchStmt:
				if v.Init != nil {
					line = opLine(v.Init)
				}
				if line == 0 && v.Tag != nil {
					line = opLine(v.Tag)
				}
			case *ast.RangeStmt:
				// range over a channel receives at the head of every iteration: a point at the start of the body
				// (harmless for other ranges: a point that is not in the trace returns at once)
				if v.Body != nil {
					ins = append(ins, insertion{fset.Position(v.Body.Lbrace).Offset + 1, fmt.Sprintf(" vhPoint(\"%s:%d\");", name, fset.Position(v.For).Line)})
				}
			}
			if line != 0 {
				ins = append(ins, insertion{fset.Position(st.Pos()).Offset, fmt.Sprintf("vhPoint(\"%s:%d\"); ", name, line)})
			}
		}
	}
	ast.Inspect(file, func(n ast.Node) bool {
		switch v := n.(type) {
		case *ast.BlockStmt:
			visitList(v.List)
		case *ast.CaseClause:
			visitList(v.Body)
		case *ast.CommClause:
			visitList(v.Body)
		case *ast.GoStmt:
			if fl, ok := v.Call.Fun.(*ast.FuncLit); ok && fl.Body != nil {
				ins = append(ins, insertion{fset.Position(fl.Body.Lbrace).Offset + 1, fmt.Sprintf(" vhThreadStart(\"lib:%s:%d\");", name, fset.Position(v.Go).Line)})
			}
		}
		return true
	})
	if len(ins) == 0 {
		return src, 0
	}
	sort.SliceStable(ins, func(i, j int) bool { return ins[i].off < ins[j].off })
	var buf bytes.Buffer
	last := 0
	for _, in := range ins {
		buf.Write(src[last:in.off])
		buf.WriteString(in.text)
		last = in.off
	}
	buf.Write(src[last:])
	return buf.Bytes(), len(ins)
}
