package main

// Per-path execution state: path condition, decisions, solver interaction.

import (
	"fmt"
	"go/token"
	"os"
	"runtime"
	"strings"
	"sync/atomic"
	"time"

	"golang.org/x/tools/go/ssa"
)

var slowLog = os.Getenv("GOSYM_SLOW") != ""

// Dec is one recorded decision of a path.
type Dec struct {
	K byte // 'b' branch, 'c' choose, 'v' concretize, 's' schedule
	V int64
	T bool // for 'v': candidate taken (t==V) or rejected (t!=V)
}

func (d Dec) String() string {
	switch d.K {
	case 'b':
		if d.V != 0 {
			return "T"
		}
		return "F"
	case 'c':
		return fmt.Sprintf("c%d", d.V)
	case 's':
		return fmt.Sprintf("s%d", d.V)
	case 'v':
		if d.T {
			return fmt.Sprintf("=%d", d.V)
		}
		return fmt.Sprintf("!%d", d.V)
	}
	return "?"
}

type obsRec struct {
	label  string
	terms  []*Term // flattened scalars/bytes
	lens   []int   // segmentation (for byte slices): -1 scalar, else length
	opaque bool
}

// TraceEv is one entry of the schedule trace of a run with several threads: a visible operation of
// LIBRARY code (role of the thread + file:line of the operation) or an environment event (role "env").
type TraceEv struct {
	Role string `json:"r"`
	Site string `json:"s,omitempty"`
	Code int64  `json:"k,omitempty"`
}

type Failure struct {
	Kind    string // "assert", "panic", "deadlock"
	Msg     string
	Site    string
	Model   Model
	Decs    []Dec
	Nondet  []uint64
	Chooses []int64
	Env     []int64   // environment events in the order they completed (goroutine tier)
	STrace  []TraceEv // library-level visible operations and environment events, in execution order
	LibPrio bool      // found by the library-priority re-exploration (natively stageable schedule)
}

type PathResult struct {
	Status                      string // "ok", "infeasible", "fail", "inconclusive"
	Reason                      string
	Failure                     *Failure
	Alts                        [][]Dec
	Decs                        []Dec
	Steps                       int
	Asserts                     int // obligations discharged by the solver
	AssertsFold                 int // obligations that folded to true
	Covers                      []string
	Witness                     *Witness
	Probe                       *Witness // model of the path condition of a path the engine had to give up on
	Inconclusive                []string
	FuncsSeen                   map[string]bool
	NDec                        int
	RaceChecks                  int
	CrossChecked, CrossDisagree int
}

// Witness is a concrete model of a completed path (reachability twin and
// translator-validation input).
type Witness struct {
	Nondet   []uint64
	Chooses  []int64
	Observes []ObsVal
	Decs     []Dec
	Env      []int64
	Bound    bool // probe of a path that ended at its step / allocation bound
}

type ObsVal struct {
	Label  string   `json:"label"`
	Vals   []uint64 `json:"vals"`
	Lens   []int    `json:"lens"`
	Opaque bool     `json:"opaque,omitempty"`
}

type Exec struct {
	cellsAlloc int // cells allocated by this path (see allocBound)
	P          *Prog
	ctx        *Ctx
	sol        *Solver
	alt        *Solver // fallback solver for unknowns (may be nil)

	pc       []*Term
	pcSet    map[*Term]bool
	subst    map[*Term]*Term
	normMemo map[*Term]*Term
	prefix   []Dec
	decs     []Dec
	alts     [][]Dec

	model   Model
	modelOK bool

	globals  map[*ssa.Global]*Value
	nondet   []*Term
	chooses  []int64
	observes []obsRec
	covers   []string

	steps    int
	maxSteps int
	maxDecs  int
	newDecs  int

	asserts     int
	assertsFold int

	inconcl   []string
	strCache  map[string]*Backing
	nextObj   int
	onceDone  map[*Value]bool
	funcsSeen map[string]bool
	fnSeen    map[*ssa.Function]bool
	sentinels map[*ssa.Global]Value
	timeLocs  map[string]*Value // time.Local / time.UTC singletons

	ss            *schedState
	callDepth     int
	curInstr      ssa.Instruction
	curFn         *ssa.Function
	wantWitness   bool
	trace         bool
	envTrace      []int64
	strace        []TraceEv
	libPrio       bool
	raceChecks    int
	cross         *Solver // second solver for differential checks of discharged obligations (thorough tier)
	crossRate     int
	crossChecked  int
	crossDisagree int
}

func (e *Exec) curSite() string {
	if e.curInstr == nil {
		return "?"
	}
	pos := e.curInstr.Pos()
	if pos == token.NoPos && e.curFn != nil {
		pos = e.curFn.Pos()
	}
	p := e.P.prog.Fset.Position(pos)
	fn := ""
	if e.curFn != nil {
		fn = e.curFn.String()
	}
	file := p.Filename
	if i := strings.LastIndex(file, "/"); i >= 0 {
		file = file[i+1:]
	}
	return fmt.Sprintf("%s:%d(%s)", file, p.Line, fn)
}

func (e *Exec) addPC(t *Term) {
	if t.IsConst() {
		if t.c == 0 {
			panic(abortf("infeasible", "false added to path condition"))
		}
		return
	}
	if e.pcSet[t] {
		return
	}
	e.pcSet[t] = true
	e.pc = append(e.pc, t)
	e.sol.Assert(e.ctx, t)
	e.noteEquality(t)
	if e.modelOK {
		if v, ok := Eval(t, e.model); !ok || v == 0 {
			e.modelOK = false
		}
	}
}

// norm rewrites t using the equalities (term = constant) that the path
// condition has established, so that e.g. an offset computed from a metadata
// byte becomes concrete once a switch has pinned that byte.
func (e *Exec) norm(t *Term) *Term {
	if len(e.subst) == 0 || t.IsConst() {
		return t
	}
	if r, ok := e.normMemo[t]; ok {
		return r
	}
	r := e.normRec(t)
	e.normMemo[t] = r
	return r
}

func (e *Exec) normRec(t *Term) *Term {
	if r, ok := e.subst[t]; ok {
		return r
	}
	if len(t.a) == 0 {
		return t
	}
	if r, ok := e.normMemo[t]; ok {
		return r
	}
	changed := false
	args := make([]*Term, len(t.a))
	for i, a := range t.a {
		args[i] = e.normRec(a)
		if args[i] != a {
			changed = true
		}
	}
	r := t
	if changed {
		r = e.ctx.rebuild(t, args)
	}
	e.normMemo[t] = r
	return r
}

func (e *Exec) noteEquality(t *Term) {
	// t is a fact on this path
	if t.op == OEq && t.a[0].w > 0 {
		x, y := t.a[0], t.a[1]
		if y.IsConst() && !x.IsConst() {
			e.subst[x] = y
			e.normMemo = map[*Term]*Term{}
		} else if x.IsConst() && !y.IsConst() {
			e.subst[y] = x
			e.normMemo = map[*Term]*Term{}
		}
	}
}

func (e *Exec) replaying() bool { return len(e.decs) < len(e.prefix) }

func (e *Exec) nextPrefix(k byte) Dec {
	d := e.prefix[len(e.decs)]
	if d.K != k {
		panic(abortf("mismatch", "replay decision kind mismatch: want %c have %c at %d (%s)", k, d.K, len(e.decs), e.curSite()))
	}
	return d
}

func (e *Exec) countDec() {
	e.newDecs++
	if len(e.decs) > e.maxDecs {
		panic(abortf("unwind", "decision bound %d exceeded at %s", e.maxDecs, e.curSite()))
	}
}

// feasible asks the solver whether pc ∧ t is satisfiable. Returns the result
// and (if sat) a model over all input variables.
func (e *Exec) feasible(t *Term) (Result, Model) {
	if e.sol.dead {
		panic(abortf("solver", "solver died: %s", e.sol.lastErr))
	}
	t0 := time.Now()
	r, m := e.sol.Check(e.ctx, []*Term{t}, true, e.nondet)
	if slowLog && time.Since(t0) > 500*time.Millisecond {
		fmt.Fprintf(os.Stderr, "SLOW %.1fs %s at %s: %s\n", time.Since(t0).Seconds(), r, e.curSite(), t.String())
	}
	if r == Unknown && e.sol.dead {
		panic(abortf("solver", "solver died: %s", e.sol.lastErr))
	}
	return r, m
}

// Branch decides a symbolic condition, forking when both outcomes are
// feasible.
func (e *Exec) Branch(c *Term) bool {
	if c.w != 0 {
		panic("Branch on non-bool")
	}
	c = e.norm(c)
	if c.IsConst() {
		return c.c != 0
	}
	notc := e.ctx.BNot(c)
	if e.pcSet[c] {
		return true
	}
	if e.pcSet[notc] {
		return false
	}
	if e.replaying() {
		d := e.nextPrefix('b')
		e.decs = append(e.decs, d)
		if d.V != 0 {
			e.addPC(c)
			return true
		}
		e.addPC(notc)
		return false
	}
	e.countDec()
	var tR, fR Result = Unknown, Unknown
	var tM, fM Model
	tKnown, fKnown := false, false
	if e.modelOK {
		if v, ok := Eval(c, e.model); ok {
			if v != 0 {
				tR, tM, tKnown = Sat, e.model, true
			} else {
				fR, fM, fKnown = Sat, e.model, true
			}
		}
	}
	if !tKnown {
		tR, tM = e.feasible(c)
	}
	if !fKnown {
		if tR == Unsat {
			fR, fM = Sat, nil // pc is satisfiable, so ¬c must be
		} else {
			fR, fM = e.feasible(notc)
		}
	}
	if tR == Unknown {
		e.inconcl = append(e.inconcl, "solver unknown on branch feasibility at "+e.curSite())
	}
	if fR == Unknown {
		e.inconcl = append(e.inconcl, "solver unknown on branch feasibility at "+e.curSite())
	}
	tOK, fOK := tR != Unsat, fR != Unsat
	switch {
	case tOK && fOK:
		alt := append(append([]Dec{}, e.decs...), Dec{K: 'b', V: 0})
		e.alts = append(e.alts, alt)
		e.decs = append(e.decs, Dec{K: 'b', V: 1})
		e.setModel(tM)
		e.addPC(c)
		return true
	case tOK:
		e.decs = append(e.decs, Dec{K: 'b', V: 1})
		e.setModel(tM)
		e.addPC(c)
		return true
	case fOK:
		e.decs = append(e.decs, Dec{K: 'b', V: 0})
		e.setModel(fM)
		e.addPC(notc)
		return false
	}
	panic(abortf("infeasible", "both branch sides infeasible at %s", e.curSite()))
}

func (e *Exec) setModel(m Model) {
	if m != nil {
		e.model, e.modelOK = m, true
	} else {
		e.modelOK = false
	}
}

// Choose is a k-way structural decision enumerated without solver calls.
func (e *Exec) Choose(k int) int {
	if k <= 1 {
		return 0
	}
	if e.replaying() {
		d := e.nextPrefix('c')
		e.decs = append(e.decs, d)
		e.chooses = append(e.chooses, d.V)
		return int(d.V)
	}
	e.countDec()
	for i := k - 1; i >= 1; i-- {
		alt := append(append([]Dec{}, e.decs...), Dec{K: 'c', V: int64(i)})
		e.alts = append(e.alts, alt)
	}
	e.decs = append(e.decs, Dec{K: 'c', V: 0})
	e.chooses = append(e.chooses, 0)
	return 0
}

// Sched is like Choose but for scheduling decisions (not on the tape's choose list).
func (e *Exec) Sched(k int) int {
	if k <= 1 {
		return 0
	}
	if e.replaying() {
		d := e.nextPrefix('s')
		e.decs = append(e.decs, d)
		return int(d.V)
	}
	e.countDec()
	for i := k - 1; i >= 1; i-- {
		alt := append(append([]Dec{}, e.decs...), Dec{K: 's', V: int64(i)})
		e.alts = append(e.alts, alt)
	}
	e.decs = append(e.decs, Dec{K: 's', V: 0})
	return 0
}

func (e *Exec) getModel() Model {
	if e.modelOK {
		return e.model
	}
	r, m := e.sol.Check(e.ctx, nil, true, e.nondet)
	if r != Sat {
		if e.sol.dead {
			panic(abortf("solver", "solver died: %s", e.sol.lastErr))
		}
		if r == Unsat {
			panic(abortf("infeasible", "path condition unsat"))
		}
		panic(abortf("solver", "no model for path condition (unknown) at %s", e.curSite()))
	}
	if m == nil {
		m = Model{}
	}
	e.setModel(m)
	return m
}

// ConcInt forces a term to a concrete value by enumeration (forking).
func (e *Exec) ConcInt(t *Term) int64 {
	t = e.norm(t)
	for {
		if t.IsConst() {
			return sext64(t.c, t.w)
		}
		if e.replaying() {
			d := e.nextPrefix('v')
			e.decs = append(e.decs, d)
			eq := e.ctx.Eq(t, e.ctx.Const(t.w, uint64(d.V)))
			if d.T {
				e.addPC(eq)
				return d.V
			}
			e.addPC(e.ctx.BNot(eq))
			continue
		}
		e.countDec()
		m := e.getModel()
		v, ok := Eval(t, m)
		if !ok {
			// value depends on an uninterpreted function: ask the solver
			r, mm := e.sol.Check(e.ctx, nil, true, []*Term{t})
			if r != Sat {
				panic(abortf("solver", "cannot concretize %v", t))
			}
			v = mm[smtRef(t)]
		}
		cv := e.ctx.Const(t.w, v)
		eq := e.ctx.Eq(t, cv)
		sv := sext64(v, t.w)
		ne := e.ctx.BNot(eq)
		r, _ := e.feasible(ne)
		if r == Unknown {
			e.inconcl = append(e.inconcl, "solver unknown while concretizing at "+e.curSite())
		}
		if r != Unsat {
			alt := append(append([]Dec{}, e.decs...), Dec{K: 'v', V: sv, T: false})
			e.alts = append(e.alts, alt)
		}
		e.decs = append(e.decs, Dec{K: 'v', V: sv, T: true})
		e.addPC(eq)
		return sv
	}
}

// Assume restricts the path.
func (e *Exec) Assume(c *Term) {
	c = e.norm(c)
	if c.IsConst() {
		if c.c == 0 {
			panic(abortf("infeasible", "assumption false"))
		}
		return
	}
	if e.pcSet[c] {
		return
	}
	if e.replaying() {
		// feasibility was established when the path was first explored
		e.addPC(c)
		return
	}
	if e.modelOK {
		if v, ok := Eval(c, e.model); ok && v != 0 {
			e.addPC(c)
			return
		}
	}
	r, m := e.feasible(c)
	switch r {
	case Unsat:
		panic(abortf("infeasible", "assumption infeasible at %s", e.curSite()))
	case Unknown:
		e.inconcl = append(e.inconcl, "solver unknown on assumption at "+e.curSite())
	}
	e.setModel(m)
	e.addPC(c)
}

// Assert is a proof obligation: pc ⇒ c.
func (e *Exec) Assert(c *Term, msg string) {
	c = e.norm(c)
	if c.IsConst() {
		if c.c != 0 {
			e.assertsFold++
			return
		}
		m := e.getModel()
		e.fail("assert", msg, m)
	}
	if e.pcSet[c] {
		e.assertsFold++
		return
	}
	nc := e.ctx.BNot(c)
	r, m := e.feasible(nc)
	if r == Unknown && e.alt != nil {
		r, m = e.altCheck(nc)
	}
	switch r {
	case Unsat:
		e.asserts++
		if e.cross != nil && e.crossRate > 0 && e.asserts%e.crossRate == 0 {
			// differential check of the encoding: the same query, from scratch, on a second solver
			e.cross.BeginPath()
			for _, t := range e.pc {
				e.cross.Assert(e.ctx, t)
			}
			r2, _ := e.cross.Check(e.ctx, []*Term{nc}, false, nil)
			e.crossChecked++
			if r2 == Sat {
				e.crossDisagree++
				e.inconcl = append(e.inconcl, fmt.Sprintf("solver disagreement on assertion %q at %s: primary unsat, second solver sat", msg, e.curSite()))
			}
		}
		if slowLog {
			fmt.Fprintf(os.Stderr, "ASSERTQ %q %s\n", msg, nc.String())
		}
		return
	case Sat:
		e.fail("assert", msg, m)
	default:
		e.inconcl = append(e.inconcl, fmt.Sprintf("solver unknown on assertion %q at %s", msg, e.curSite()))
	}
}

// altCheck re-asks a query from scratch on the fallback solver.
func (e *Exec) altCheck(extra *Term) (Result, Model) {
	e.alt.BeginPath()
	for _, t := range e.pc {
		e.alt.Assert(e.ctx, t)
	}
	r, m := e.alt.Check(e.ctx, []*Term{extra}, true, e.nondet)
	if r != Unknown {
		return r, m
	}
	// last resort (a loaded machine can push a query that normally takes a few seconds past
	// the per-query limit): once more, from scratch, on the newer z3 with four times the limit
	lr, err := NewSolver("z3-new", 4*e.alt.timeoutMs)
	if err != nil {
		return r, m
	}
	defer lr.Close()
	lr.BeginPath()
	for _, t := range e.pc {
		lr.Assert(e.ctx, t)
	}
	lastResortQueries.Add(1)
	return lr.Check(e.ctx, []*Term{extra}, true, e.nondet)
}

// lastResortQueries counts queries that needed the last-resort solver (reported in the evidence).
var lastResortQueries atomic.Int64

func (e *Exec) fail(kind, msg string, m Model) {
	f := &Failure{Kind: kind, Msg: msg, Site: e.curSite(), Model: m, Decs: append([]Dec{}, e.decs...)}
	f.Nondet = e.tapeValues(m)
	f.Chooses = append([]int64{}, e.chooses...)
	panic(f)
}

func (e *Exec) tapeValues(m Model) []uint64 {
	out := make([]uint64, len(e.nondet))
	for i, v := range e.nondet {
		out[i] = m[v.name] & maskb(v.w)
	}
	return out
}

func (e *Exec) newVar(w int, kind string) *Term {
	name := fmt.Sprintf("%s%d", kind, len(e.nondet))
	v := e.ctx.Var(name, w)
	e.nondet = append(e.nondet, v)
	return v
}

func (e *Exec) unsupported(format string, args ...interface{}) {
	panic(abortf("unsupported", format+" at "+e.curSite(), args...))
}

// memPressure is set by the watchdog started in cmdCheck while the engine's heap is above its
// budget (half of the machine's memory, GOSYM_MEM_GB overrides): long-running paths then end as
// if they had exceeded their step bound instead of taking the whole check down.
var memPressure atomic.Bool

func startMemWatchdog() {
	budget := uint64(16) << 30
	if data, err := os.ReadFile("/proc/meminfo"); err == nil {
		var kb uint64
		if _, err := fmt.Sscanf(string(data), "MemTotal: %d kB", &kb); err == nil && kb > 0 {
			budget = kb * 1024 / 2
		}
	}
	if v := os.Getenv("GOSYM_MEM_GB"); v != "" {
		var gb uint64
		if _, err := fmt.Sscanf(v, "%d", &gb); err == nil && gb > 0 {
			budget = gb << 30
		}
	}
	go func() {
		var ms runtime.MemStats
		for {
			time.Sleep(500 * time.Millisecond)
			runtime.ReadMemStats(&ms)
			if ms.HeapAlloc > budget {
				memPressure.Store(true)
				runtime.GC()
			} else if ms.HeapAlloc < budget/2 {
				memPressure.Store(false)
			}
		}
	}()
}
