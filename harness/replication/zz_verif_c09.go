//go:build verif

package replication

// C09 (second half): rows events are split into exactly the encoded rows and images.

func init() {
	vhRegister("VH_C09_Rows", func(p []int) { VH_C09_Rows(p[0], p[1], p[2], p[3], p[4]) })
}

type vhCol struct {
	typ  byte
	meta uint16
}

// column shapes for the rows harness
var vhRowShapes = [][]vhCol{
	{{TypeLong, 0}, {TypeVarchar, 40}},
	{{TypeTiny, 0}, {TypeBlob, 2}, {TypeLongLong, 0}},
	{{TypeVarchar, 300}, {TypeNewDecimal, 10<<8 | 2}, {TypeDateTime2, 3}},
	{{TypeString, uint16(TypeString)<<8 | 10}, {TypeTime2, 0}, {TypeBit, 1<<8 | 3}},
	// 9 and 17 fixed-width columns: multi-byte bitmaps
	{{TypeTiny, 0}, {TypeShort, 0}, {TypeTiny, 0}, {TypeYear, 0}, {TypeTiny, 0}, {TypeInt24, 0}, {TypeTiny, 0}, {TypeTiny, 0}, {TypeLong, 0}},
	{{TypeTiny, 0}, {TypeTiny, 0}, {TypeTiny, 0}, {TypeTiny, 0}, {TypeTiny, 0}, {TypeTiny, 0}, {TypeTiny, 0}, {TypeTiny, 0}, {TypeShort, 0},
		{TypeTiny, 0}, {TypeTiny, 0}, {TypeTiny, 0}, {TypeTiny, 0}, {TypeTiny, 0}, {TypeTiny, 0}, {TypeTiny, 0}, {TypeDate, 0}},
	// 6: 300 columns (column count needs the 0xfc length prefix, 38-byte bitmaps)
	vhWideCols(300),
}

func vhWideCols(n int) []vhCol {
	cs := make([]vhCol, n)
	for i := range cs {
		cs[i] = vhCol{TypeTiny, 0}
		if i%7 == 3 {
			cs[i] = vhCol{TypeShort, 0}
		}
	}
	return cs
}

// vwCell appends one cell of the given type with symbolic payload and a
// concretely chosen length for variable-width types.
func vwCell(w *vw, c vhCol) {
	fixed := map[byte]int{TypeTiny: 1, TypeYear: 1, TypeShort: 2, TypeInt24: 3, TypeLong: 4, TypeLongLong: 8, TypeDate: 3, TypeTime2: 3, TypeDateTime2: 5}
	switch c.typ {
	case TypeVarchar, TypeString:
		n := []int{0, 1, 3}[vhChoose(3)]
		max := int(c.meta)
		if c.typ == TypeString {
			max = int(c.meta & 0xff)
		}
		if max > 255 {
			w.u16(uint16(n))
		} else {
			w.u8(byte(n))
		}
		w.raw(vhBytes(n))
	case TypeBlob:
		n := []int{0, 2}[vhChoose(2)]
		w.u16(uint16(n))
		w.raw(vhBytes(n))
	case TypeNewDecimal:
		w.raw(vhBytes(5)) // DECIMAL(10,2): 4 + 1 bytes
	case TypeBit:
		w.raw(vhBytes(2)) // BIT(11)
	case TypeDateTime2:
		w.raw(vhBytes(5 + (int(c.meta)+1)/2))
	default:
		w.raw(vhBytes(fixed[c.typ]))
	}
}

func vhBit(bits []byte, i int) bool { return bits[i/8]&(1<<(uint(i)%8)) != 0 }

// vwImage writes one row image; returns the null bitmap it used.
func vwImage(w *vw, cols []vhCol, present []byte, symbolicBits bool) (nulls []byte) {
	np := 0
	for c := range cols {
		if vhBit(present, c) {
			np++
		}
	}
	nulls = make([]byte, (np+7)/8)
	if len(nulls) > 3 {
		// wide tables: one pattern for every byte of the bitmap
		p := []byte{0x00, 0x5a, 0xff}[vhChoose(3)]
		for i := range nulls {
			nulls[i] = p
		}
	}
	for i := range nulls {
		if len(nulls) > 3 {
			break
		}
		if symbolicBits {
			nulls[i] = []byte{0x00, 0x5a, 0xff}[vhChoose(3)]
		} else {
			nulls[i] = byte(vhChoose(1 << uint(vhMin(np-8*i, 8))))
		}
	}
	w.raw(nulls)
	k := 0
	for c := range cols {
		if !vhBit(present, c) {
			continue
		}
		if !vhBit(nulls, k) {
			vwCell(w, cols[c])
		}
		k++
	}
	return nulls
}

// VH_C09_Rows: kind 0 write / 1 update / 2 delete; version 1|2; table-id width 4|6;
// shape index; extra = extra-data length for v2 (0 means "2", the bare length field).
func VH_C09_Rows(kind, version, width, shape, extra int) {
	cols := vhRowShapes[shape]
	nc := len(cols)
	f := vwFormat(BinlogChecksumAlgOff, width)
	typ := byte([]int{vtWriteV1, vtUpdateV1, vtDeleteV1}[kind])
	if version == 2 {
		typ = byte([]int{vtWriteV2, vtUpdateV2, vtDeleteV2}[kind])
	}
	hasIdentify := kind != 0
	hasData := kind != 2
	small := nc <= 3

	tm := &TableMap{Types: make([]byte, nc), Metadata: make([]uint16, nc), CanBeNull: NewServerBitmap(nc)}
	for c := range cols {
		tm.Types[c], tm.Metadata[c] = cols[c].typ, cols[c].meta
	}

	idb := vhBytes(width)
	id := vhLE(idb)
	fb := vhBytes(2)
	flags := uint16(fb[0]) | uint16(fb[1])<<8
	w := &vw{}
	w.raw(idb)
	w.raw(fb)
	if version == 2 {
		w.u16(uint16(2 + extra))
		w.raw(vhBytes(extra))
	}
	w.lenenc(uint64(nc))
	pick := func() []byte {
		b := make([]byte, (nc+7)/8)
		if nc > 17 {
			p := []byte{0xff, 0xa5, 0x01}[vhChoose(3)]
			for i := range b {
				b[i] = p
			}
			return b
		}
		for i := range b {
			if small {
				// at least one column present (MySQL never logs an empty image)
				b[i] = byte(vhChoose((1<<uint(nc))-1) + 1)
			} else {
				b[i] = []byte{0xff, 0xa5, 0x01}[vhChoose(3)]
			}
		}
		return b
	}
	var presI, presD []byte
	if hasIdentify {
		presI = pick()
		w.raw(presI)
	}
	if hasData {
		presD = pick()
		w.raw(presD)
	}
	var nrows int
	if kind == 1 {
		nrows = vhChoose(2)
	} else {
		nrows = vhChoose(3)
	}
	type img struct {
		from, to int
		nulls    []byte
	}
	var idImgs, dataImgs []img
	for r := 0; r < nrows; r++ {
		if hasIdentify {
			start := len(w.b)
			nulls := vwImage(w, cols, presI, !small)
			idImgs = append(idImgs, img{start + len(nulls), len(w.b), nulls})
		}
		if hasData {
			start := len(w.b)
			nulls := vwImage(w, cols, presD, !small)
			dataImgs = append(dataImgs, img{start + len(nulls), len(w.b), nulls})
		}
	}
	body := w.b
	ev := NewMysql56BinlogEvent(vwEvent(typ, 0, 1, 0, 0, body, nil))
	vhAssert(ev.IsValid(), "valid event")
	vhAssert(ev.TableID(f) == id, "table id")
	rows, err := ev.Rows(f, tm)
	vhAssert(err == nil, "no error")
	vhAssert(rows.Flags == flags, "flags")
	vhAssert(len(rows.Rows) == nrows, "row count")
	if hasIdentify {
		vhAssert(rows.IdentifyColumns.Count() == nc, "identify bitmap size")
		for c := 0; c < nc; c++ {
			vhAssert(rows.IdentifyColumns.Bit(c) == vhBit(presI, c), "identify presence bit")
		}
	}
	if hasData {
		vhAssert(rows.DataColumns.Count() == nc, "data bitmap size")
		for c := 0; c < nc; c++ {
			vhAssert(rows.DataColumns.Bit(c) == vhBit(presD, c), "data presence bit")
		}
	}
	check := func(got []byte, gotNulls Bitmap, im img, present []byte) {
		want := body[im.from:im.to]
		vhAssert(len(got) == len(want), "image length")
		for i := 0; i < len(want); i++ {
			vhAssert(got[i] == want[i], "image bytes")
		}
		// walking the image column by column, as the streamer does, consumes it exactly
		pos, k := 0, 0
		for c := 0; c < nc; c++ {
			if !vhBit(present, c) {
				continue
			}
			vhAssert(gotNulls.Bit(k) == vhBit(im.nulls, k), "NULL bit")
			if !vhBit(im.nulls, k) {
				// size by the per-type length rule; VH_C09_LenAgree shows that the
				// value decoder consumes exactly the same number of bytes
				l, cerr := cellLength(got, pos, cols[c].typ, cols[c].meta)
				vhAssert(cerr == nil, "cell length")
				pos += l
			}
			k++
		}
		vhAssert(pos == len(got), "column-by-column decoding consumes the image exactly")
	}
	for r := 0; r < nrows; r++ {
		if hasIdentify {
			check(rows.Rows[r].Identify, rows.Rows[r].NullIdentifyColumns, idImgs[r], presI)
		}
		if hasData {
			check(rows.Rows[r].Data, rows.Rows[r].NullColumns, dataImgs[r], presD)
		}
	}
	vhCover("rows")
}

func vhMin(a, b int) int {
	if a < b {
		return a
	}
	return b
}
