//go:build verif

package replication

// C17: validity gate.

func init() {
	vhRegister("VH_C17_IsValid", func(p []int) { VH_C17_IsValid(p[0]) })
}

// VH_C17_IsValid: for an arbitrary buffer of n bytes, IsValid accepts exactly
// the buffers that hold a 19-byte header whose length field equals the buffer
// length; no accessor panics on an accepted buffer.
func VH_C17_IsValid(n int) {
	buf := vhBytes(n)
	ev := NewMysql56BinlogEvent(buf)
	got := ev.IsValid()
	want := false
	if n >= 19 {
		l := uint32(buf[9]) | uint32(buf[10])<<8 | uint32(buf[11])<<16 | uint32(buf[12])<<24
		want = l == uint32(n)
	}
	vhObserve("valid", vhB2U(got))
	vhAssert(got == want, "IsValid must accept exactly len>=19 && lengthField==len")
	if !got {
		vhCover("rejected")
		return
	}
	vhCover("accepted")
	// header accessors must not fail on accepted buffers and return the header fields
	be := ev.(mysql56BinlogEvent)
	ts := uint32(buf[0]) | uint32(buf[1])<<8 | uint32(buf[2])<<16 | uint32(buf[3])<<24
	sid := uint32(buf[5]) | uint32(buf[6])<<8 | uint32(buf[7])<<16 | uint32(buf[8])<<24
	np := uint32(buf[13]) | uint32(buf[14])<<8 | uint32(buf[15])<<16 | uint32(buf[16])<<24
	fl := uint16(buf[17]) | uint16(buf[18])<<8
	vhAssert(ev.Timestamp() == ts, "Timestamp")
	vhAssert(be.Type() == buf[4], "Type")
	vhAssert(be.ServerID() == sid, "ServerID")
	vhAssert(be.Length() == uint32(n), "Length")
	vhAssert(ev.NextPosition() == int64(np), "NextPosition")
	vhAssert(be.Flags() == fl, "Flags")
	// the Is* predicates are total
	k := 0
	for _, b := range []bool{ev.IsFormatDescription(), ev.IsQuery(), ev.IsXID(), ev.IsGTID(), ev.IsRotate(),
		ev.IsIntVar(), ev.IsRand(), ev.IsPreviousGTIDs(), ev.IsRowsQuery(), ev.IsTableMap(),
		ev.IsWriteRows(), ev.IsUpdateRows(), ev.IsDeleteRows()} {
		if b {
			k++
		}
	}
	vhAssert(k <= 1, "at most one event class")
	vhAssert(!ev.IsPseudo(), "IsPseudo")
}
