//go:build verif

package replication

import (
	"strconv"
	"time"
)

// C12: temporal types.  Reference decoders follow MySQL's my_time.c; the
// text produced by CellBytes is scanned field by field (separators, field
// widths, digits only) and each numeric field is compared with the reference
// value, which pins the text down exactly.

func init() {
	vhRegister("VH_C12_Date", func(p []int) { VH_C12_Date(p[0]) })
	vhRegister("VH_C12_TimeOld", func(p []int) { VH_C12_TimeOld() })
	vhRegister("VH_C12_DateTimeOld", func(p []int) { VH_C12_DateTimeOld() })
	vhRegister("VH_C12_TimestampOld", func(p []int) { VH_C12_TimestampOld() })
	vhRegister("VH_C12_Timestamp2", func(p []int) { VH_C12_Timestamp2(p[0]) })
	vhRegister("VH_C12_DateTime2", func(p []int) { VH_C12_DateTime2(p[0]) })
	vhRegister("VH_C12_Time2", func(p []int) { VH_C12_Time2(p[0]) })
}

type vhScan struct {
	b []byte
	i int
}

func (s *vhScan) lit(c byte) {
	vhAssert(s.i < len(s.b), "text too short")
	vhAssert(s.b[s.i] == c, "separator/sign character")
	s.i++
}

// num reads exactly w decimal digits.
func (s *vhScan) num(w int) uint64 {
	vhAssert(s.i+w <= len(s.b), "text too short for field")
	for k := s.i; k < s.i+w; k++ {
		vhAssert(s.b[k] >= '0' && s.b[k] <= '9', "digit expected")
	}
	v, err := strconv.ParseUint(string(s.b[s.i:s.i+w]), 10, 64)
	vhAssert(err == nil, "field parses")
	s.i += w
	return v
}

// numMin reads a field of w >= minW digits that has no padding beyond minW.
func (s *vhScan) numMin(w, minW int) uint64 {
	vhAssert(w >= minW, "field shorter than its minimum width")
	if w > minW {
		vhAssert(s.i < len(s.b) && s.b[s.i] != '0', "padding beyond the minimum width")
	}
	return s.num(w)
}

func (s *vhScan) end() { vhAssert(s.i == len(s.b), "trailing characters") }

var vhPow10 = [...]uint64{1, 10, 100, 1000, 10000, 100000, 1000000}

// fracLayout: number of fraction bytes and the scale that turns the stored
// number into microseconds.
func fracLayout(dec int) (nb int, scale uint64) {
	switch dec {
	case 0:
		return 0, 0
	case 1, 2:
		return 1, 10000
	case 3, 4:
		return 2, 100
	}
	return 3, 1
}

func vhBE(b []byte) uint64 {
	var v uint64
	for i := 0; i < len(b); i++ {
		v = v<<8 | uint64(b[i])
	}
	return v
}

// validFrac: stored fraction below 10^(2*nb) and, for odd dec, a multiple of 10.
func validFrac(fr uint64, dec int) bool {
	nb, _ := fracLayout(dec)
	if nb == 0 {
		return true
	}
	if fr >= vhPow10[2*nb] {
		return false
	}
	if dec%2 == 1 && fr%10 != 0 {
		return false
	}
	return true
}

// scanFrac checks ".<dec digits>" == usec / 10^(6-dec).
func (s *vhScan) frac(usec uint64, dec int) {
	if dec == 0 {
		return
	}
	s.lit('.')
	f := s.num(dec)
	vhAssert(f == usec/vhPow10[6-dec], "fraction digits")
}

func (s *vhScan) date(year, month, day uint64) {
	vhAssert(s.num(4) == year, "year")
	s.lit('-')
	vhAssert(s.num(2) == month, "month")
	s.lit('-')
	vhAssert(s.num(2) == day, "day")
}

func (s *vhScan) hms(hour, minute, second uint64) {
	vhAssert(s.num(2) == hour, "hour")
	s.lit(':')
	vhAssert(s.num(2) == minute, "minute")
	s.lit(':')
	vhAssert(s.num(2) == second, "second")
}

// VH_C12_Date: typ = TypeDate or TypeNewDate.
func VH_C12_Date(typ int) {
	data := vhBytes(vhPre + 3)
	val := vhLE(data[vhPre : vhPre+3])
	day, month, year := val&31, (val>>5)&15, val>>9
	vhAssume(month <= 12 && year <= 9999)
	out, l, err := CellBytes(data, vhPre, byte(typ), 0, false)
	vhAssert(err == nil && l == 3, "date length")
	vhObserveBytes("text", out)
	s := &vhScan{b: out}
	s.date(year, month, day)
	s.end()
	vhCover("date")
}

// VH_C12_TimeOld: pre-5.6.4 TIME, 3 bytes signed little-endian ±(h*10000+m*100+s).
func VH_C12_TimeOld() {
	data := vhBytes(vhPre + 3)
	raw := vhLE(data[vhPre : vhPre+3])
	neg := raw&0x800000 != 0
	a := raw
	if neg {
		a = 0x1000000 - raw
	}
	h, m, sec := a/10000, (a%10000)/100, a%100
	vhAssume(h <= 838 && m <= 59 && sec <= 59)
	out, l, err := CellBytes(data, vhPre, TypeTime, 0, false)
	vhAssert(err == nil && l == 3, "time length")
	vhObserveBytes("text", out)
	s := &vhScan{b: out}
	sign := 0
	if neg {
		s.lit('-')
		sign = 1
		vhCover("negative")
	} else {
		vhCover("positive")
	}
	vhAssert(s.numMin(len(out)-sign-6, 2) == h, "hours")
	s.lit(':')
	vhAssert(s.num(2) == m, "minutes")
	s.lit(':')
	vhAssert(s.num(2) == sec, "seconds")
	s.end()
}

// VH_C12_DateTimeOld: 8 bytes little-endian decimal YYYYMMDDhhmmss.
func VH_C12_DateTimeOld() {
	data := vhBytes(vhPre + 8)
	val := vhLE(data[vhPre : vhPre+8])
	// number_to_datetime(): part1 = date, part2 = time
	part1 := val / 1000000
	part2 := val % 1000000
	year, month, day := part1/10000, (part1%10000)/100, part1%100
	hour, minute, second := part2/10000, (part2%10000)/100, part2%100
	vhAssume(year <= 9999 && month <= 12 && day <= 31 && hour <= 23 && minute <= 59 && second <= 59)
	out, l, err := CellBytes(data, vhPre, TypeDateTime, 0, false)
	vhAssert(err == nil && l == 8, "datetime length")
	vhObserveBytes("text", out)
	s := &vhScan{b: out}
	s.date(year, month, day)
	s.lit(' ')
	s.hms(hour, minute, second)
	s.end()
	vhCover("datetime")
}

// scanTimestamp: local-zone rendering of a unix instant; 0 is the zero timestamp.
func (s *vhScan) timestamp(sec uint32) {
	if sec == 0 {
		s.date(0, 0, 0)
		s.lit(' ')
		s.hms(0, 0, 0)
		return
	}
	t := time.Unix(int64(sec), 0).Local()
	y, mo, d := t.Date()
	h, mi, se := t.Clock()
	s.date(uint64(y), uint64(mo), uint64(d))
	s.lit(' ')
	s.hms(uint64(h), uint64(mi), uint64(se))
}

func VH_C12_TimestampOld() {
	data := vhBytes(vhPre + 4)
	sec := uint32(vhLE(data[vhPre : vhPre+4]))
	// the case split comes BEFORE the call: should the decoder leave the encoder's reach, the probe
	// of the zero case carries the zero value
	if sec == 0 {
		vhCover("zero")
	} else {
		vhCover("nonzero")
	}
	out, l, err := CellBytes(data, vhPre, TypeTimestamp, 0, false)
	vhAssert(err == nil && l == 4, "timestamp length")
	s := &vhScan{b: out}
	s.timestamp(sec)
	s.end()
}

func VH_C12_Timestamp2(dec int) {
	nb, scale := fracLayout(dec)
	data := vhBytes(vhPre + 4 + nb)
	sec := uint32(vhBE(data[vhPre : vhPre+4]))
	fr := vhBE(data[vhPre+4 : vhPre+4+nb])
	vhAssume(validFrac(fr, dec))
	if sec == 0 {
		vhCover("zero")
	} else {
		vhCover("nonzero")
	}
	out, l, err := CellBytes(data, vhPre, TypeTimestamp2, uint16(dec), false)
	vhAssert(err == nil && l == 4+nb, "timestamp2 length")
	s := &vhScan{b: out}
	s.timestamp(sec)
	s.frac(fr*scale, dec)
	s.end()
}

func VH_C12_DateTime2(dec int) {
	nb, scale := fracLayout(dec)
	data := vhBytes(vhPre + 5 + nb)
	packed := vhBE(data[vhPre : vhPre+5])
	vhAssume(packed&0x8000000000 != 0) // non-negative datetime
	intpart := packed - 0x8000000000
	ymd := intpart >> 17
	ym := ymd >> 5
	hms := intpart % (1 << 17)
	day, month, year := ymd%32, ym%13, ym/13
	second, minute, hour := hms%64, (hms>>6)%64, hms>>12
	fr := vhBE(data[vhPre+5 : vhPre+5+nb])
	vhAssume(year <= 9999 && hour <= 23 && minute <= 59 && second <= 59 && validFrac(fr, dec))
	out, l, err := CellBytes(data, vhPre, TypeDateTime2, uint16(dec), false)
	vhAssert(err == nil && l == 5+nb, "datetime2 length")
	vhObserveBytes("text", out)
	s := &vhScan{b: out}
	s.date(year, month, day)
	s.lit(' ')
	s.hms(hour, minute, second)
	s.frac(fr*scale, dec)
	s.end()
	vhCover("datetime2")
}

func VH_C12_Time2(dec int) {
	nb, scale := fracLayout(dec)
	data := vhBytes(vhPre + 3 + nb)
	// my_time_packed_from_binary
	var tmp int64
	if nb == 3 {
		tmp = int64(vhBE(data[vhPre:vhPre+6])) - 0x800000000000
	} else {
		intpart := int64(vhBE(data[vhPre:vhPre+3])) - 0x800000
		frac := int64(vhBE(data[vhPre+3 : vhPre+3+nb]))
		if intpart < 0 && frac != 0 {
			intpart++
			frac -= int64(1) << (8 * uint(nb))
		}
		tmp = intpart*(1<<24) + frac*int64(scale)
	}
	neg := tmp < 0
	if neg {
		tmp = -tmp
	}
	hmsv := uint64(tmp) >> 24
	usec := uint64(tmp) & 0xffffff
	hour, minute, second := (hmsv>>12)%1024, (hmsv>>6)%64, hmsv%64
	vhAssume(hour <= 838 && minute <= 59 && second <= 59 && usec <= 999999)
	if dec > 0 {
		vhAssume(usec%scale == 0) // what the stored bytes can express
		if dec%2 == 1 {
			vhAssume((usec/scale)%10 == 0) // odd fsp is stored as a multiple of 10
		}
	}
	out, l, err := CellBytes(data, vhPre, TypeTime2, uint16(dec), false)
	vhAssert(err == nil && l == 3+nb, "time2 length")
	vhObserveBytes("text", out)
	s := &vhScan{b: out}
	sign := 0
	if neg {
		s.lit('-')
		sign = 1
		vhCover("negative")
	} else {
		vhCover("positive")
	}
	fl := 0
	if dec > 0 {
		fl = dec + 1
	}
	vhAssert(s.numMin(len(out)-sign-6-fl, 2) == hour, "hours")
	s.lit(':')
	vhAssert(s.num(2) == minute, "minutes")
	s.lit(':')
	vhAssert(s.num(2) == second, "seconds")
	s.frac(usec, dec)
	s.end()
}
