//go:build verif

package replication

// C19: GTIDs survive every encoding; MariaDB sets keep one position per domain.

func init() {
	vhRegister("VH_C19_Mysql56RT", func(p []int) { VH_C19_Mysql56RT(p[0]) })
	vhRegister("VH_C19_MariaRT", func(p []int) { VH_C19_MariaRT(p[0], p[1]) })
	vhRegister("VH_C19_SetText", func(p []int) { VH_C19_SetText(p[0], p[1], p[2]) })
	vhRegister("VH_C19_SIDBlock", func(p []int) { VH_C19_SIDBlock(p[0], p[1]) })
	vhRegister("VH_C19_Events", func(p []int) { VH_C19_Events(p[0]) })
	vhRegister("VH_C19_MariaSetText", func(p []int) { VH_C19_MariaSetText(p[0]) })
	vhRegister("VH_C19_MariaAdd", func(p []int) { VH_C19_MariaAdd(p[0]) })
	vhRegister("VH_C19_MariaFork", func(p []int) { VH_C19_MariaFork(p[0]) })
	vhRegister("VH_C19_MariaContains", func(p []int) { VH_C19_MariaContains(p[0]) })
}

func vhSID() SID {
	var s SID
	b := vhBytes(16)
	copy(s[:], b)
	return s
}

// VH_C19_Mysql56RT: via 0 = flavor parser, 1 = flavor-tagged Encode/Decode, 2 = SID text only.
func VH_C19_Mysql56RT(via int) {
	sid := vhSID()
	if via == 2 {
		back, err := ParseSID(sid.String())
		vhAssert(err == nil, "SID text parses")
		vhAssert(back == sid, "SID round trip")
		vhCover("sid")
		return
	}
	seq := vhI64()
	vhAssume(seq >= 1)
	g := Mysql56GTID{Server: sid, Sequence: seq}
	var back GTID
	var err error
	if via == 0 {
		back, err = parseMysql56GTID(g.String())
	} else {
		back, err = DecodeGTID(EncodeGTID(g))
	}
	vhAssert(err == nil, "GTID text parses")
	b56, ok := back.(Mysql56GTID)
	vhAssert(ok, "same flavor")
	vhAssert(b56.Sequence == seq, "sequence number round trip")
	vhAssert(b56.Server == sid, "server id round trip")
	vhAssert(back == GTID(g), "GTID round trip yields an equal value")
	vhCover("gtid")
}

// VH_C19_MariaRT: the field `wide` (0 domain, 1 server, 2 sequence) ranges over
// its full domain, the other two over 0..99 (bounds the digit-count forks).
func VH_C19_MariaRT(wide, via int) {
	d, s, q := vhU32(), vhU32(), vhU64()
	if wide != 0 {
		vhAssume(d < 100)
	}
	if wide != 1 {
		vhAssume(s < 100)
	}
	if wide != 2 {
		vhAssume(q < 100)
	}
	g := MariadbGTID{Domain: d, Server: s, Sequence: q}
	var back GTID
	var err error
	if via == 0 {
		back, err = parseMariadbGTID(g.String())
	} else {
		back, err = DecodeGTID(EncodeGTID(g))
	}
	vhAssert(err == nil, "MariaDB GTID text parses")
	bm, ok := back.(MariadbGTID)
	vhAssert(ok, "same flavor")
	vhAssert(bm.Domain == d && bm.Server == s && bm.Sequence == q, "MariaDB GTID round trip")
	vhCover("maria")
}

// small canonical list with bounds below 1000 (digit-count forks stay small)
func vhSmallCanon(k int) []interval {
	ivs := vhCanonList(k)
	for _, iv := range ivs {
		vhAssume(iv.end < 1000)
	}
	return ivs
}

// VH_C19_SetText: n0/n1 intervals for two SIDs -> String() -> parser -> Equal.
func VH_C19_SetText(n0, n1, order int) {
	set := Mysql56GTIDSet{}
	a, b := vhSIDs[0], vhSIDs[1]
	if order == 1 {
		a, b = vhSIDs[2], vhSIDs[0] // different lexicographic order of the keys
	}
	if n0 > 0 {
		set[a] = vhSmallCanon(n0)
	}
	if n1 > 0 {
		set[b] = vhSmallCanon(n1)
	}
	txt := set.String()
	back, err := parseMysql56GTIDSet(txt)
	vhAssert(err == nil, "set text parses")
	vhAssert(set.Equal(back), "text round trip yields an equal set")
	vhAssert(back.Equal(set), "text round trip yields an equal set (symmetric)")
	vhCover("settext")
}

// vhCanonListFull: canonical list over the whole range 1..2^63-1 (no end+1 arithmetic).
func vhCanonListFull(k int) []interval {
	ivs := make([]interval, k)
	for i := 0; i < k; i++ {
		s, e := vhI64(), vhI64()
		vhAssume(s >= 1 && s <= e)
		if i > 0 {
			vhAssume(ivs[i-1].end < s-1)
		}
		ivs[i] = interval{s, e}
	}
	return ivs
}

func VH_C19_SIDBlock(n0, n1 int) {
	set := Mysql56GTIDSet{}
	if n0 > 0 {
		set[vhSIDs[0]] = vhCanonListFull(n0)
	}
	if n1 > 0 {
		set[vhSIDs[1]] = vhCanonListFull(n1)
	}
	blk := set.SIDBlock()
	back, err := NewMysql56GTIDSetFromSIDBlock(blk)
	vhAssert(err == nil, "SID block decodes")
	vhAssert(set.Equal(back) && back.Equal(set), "SID block round trip yields an equal set")
	vhCover("sidblock")
}

// VH_C19_Events: kind 0 = MySQL GTID event, 1 = PREVIOUS_GTIDS, 2 = MariaDB GTID event.
func VH_C19_Events(kind int) {
	f := vwFormat(BinlogChecksumAlgOff, 6)
	switch kind {
	case 0:
		sid := vhSID()
		gno := vhI64()
		w := &vw{}
		w.u8(vhU8()) // flags
		w.raw(sid[:])
		w.u64(uint64(gno))
		w.raw(vhBytes(vhChoose(3) * 8)) // 5.7 appends logical timestamps
		ev := NewMysql56BinlogEvent(vwEvent(vtGTID, vhU32(), vhU32(), vhU32(), vhU16(), w.b, nil))
		vhAssert(ev.IsValid() && ev.IsGTID(), "GTID event")
		g, begin, err := ev.GTID(f)
		vhAssert(err == nil && !begin, "no error, not a BEGIN")
		vhAssert(g == GTID(Mysql56GTID{Server: sid, Sequence: gno}), "GTID event identifier")
		vhCover("gtid-event")
	case 1:
		// independent SID block writer: two SIDs, 1 and 2 intervals
		iv0, iv1 := vhCanonListFull(1), vhCanonListFull(2)
		w := &vw{}
		w.u64(2)
		w.raw(vhSIDs[0][:])
		w.u64(1)
		w.u64(uint64(iv0[0].start))
		w.u64(uint64(iv0[0].end + 1))
		w.raw(vhSIDs[1][:])
		w.u64(2)
		for _, iv := range iv1 {
			w.u64(uint64(iv.start))
			w.u64(uint64(iv.end + 1))
		}
		ev := NewMysql56BinlogEvent(vwEvent(vtPrevGTIDs, vhU32(), vhU32(), vhU32(), vhU16(), w.b, nil))
		vhAssert(ev.IsValid() && ev.IsPreviousGTIDs(), "previous-GTIDs event")
		gs, err := ev.PreviousGTIDs(f)
		vhAssert(err == nil, "no error")
		want := Mysql56GTIDSet{vhSIDs[0]: iv0, vhSIDs[1]: iv1}
		vhAssert(want.Equal(gs) && gs.Equal(want), "previous-GTIDs set")
		vhCover("prev-gtids")
	case 2:
		seq, dom, fl2 := vhU64(), vhU32(), vhU8()
		sid := vhU32()
		w := &vw{}
		w.u64(seq)
		w.u32(dom)
		w.u8(fl2)
		w.raw(vhBytes(vhChoose(2) * 6))
		ev := NewMariadbBinlogEvent(vwEvent(vtMariaGTID, vhU32(), sid, vhU32(), vhU16(), w.b, nil))
		vhAssert(ev.IsValid() && ev.IsGTID(), "MariaDB GTID event")
		g, begin, err := ev.GTID(f)
		vhAssert(err == nil, "no error")
		vhAssert(g == GTID(MariadbGTID{Domain: dom, Server: sid, Sequence: seq}), "MariaDB GTID event identifier")
		vhAssert(begin == (fl2&1 == 0), "standalone flag")
		vhCover("maria-event")
	}
}

// vhMariaSet: n members with pairwise distinct domains (the invariant of a MariaDB set).
func vhMariaSet(n int, small bool) MariadbGTIDSet {
	s := make(MariadbGTIDSet, n)
	for i := 0; i < n; i++ {
		s[i] = MariadbGTID{Domain: vhU32(), Server: vhU32(), Sequence: vhU64()}
		if small {
			vhAssume(s[i].Domain < 100 && s[i].Server < 100 && s[i].Sequence < 100)
		}
		for j := 0; j < i; j++ {
			vhAssume(s[j].Domain != s[i].Domain)
		}
	}
	return s
}

func VH_C19_MariaSetText(n int) {
	s := vhMariaSet(n, true)
	back, err := parseMariadbGTIDSet(s.String())
	vhAssert(err == nil, "MariaDB set text parses")
	vhAssert(s.Equal(back) && back.Equal(s), "MariaDB set text round trip")
	vhCover("maria-settext")
}

func VH_C19_MariaAdd(n int) {
	s := vhMariaSet(n, false)
	snap := make([]MariadbGTID, n)
	copy(snap, s)
	g := MariadbGTID{Domain: vhU32(), Server: vhU32(), Sequence: vhU64()}
	res, ok := s.AddGTID(g).(MariadbGTIDSet)
	vhAssert(ok, "result is a MariaDB set")
	// one position per domain, the larger sequence wins
	hit := -1
	for i := 0; i < n; i++ {
		if snap[i].Domain == g.Domain {
			hit = i
		}
	}
	if hit < 0 {
		vhAssert(len(res) == n+1, "new domain appended")
		for i := 0; i < n; i++ {
			vhAssert(res[i] == snap[i], "other domains kept")
		}
		vhAssert(res[n] == g, "new member is the added GTID")
		vhCover("new-domain")
	} else {
		vhAssert(len(res) == n, "one position per domain")
		for i := 0; i < n; i++ {
			if i != hit {
				vhAssert(res[i] == snap[i], "other domains kept")
			}
		}
		if g.Sequence > snap[hit].Sequence {
			vhAssert(res[hit] == g, "larger sequence replaces the position of its domain")
			vhCover("advance")
		} else {
			vhAssert(res[hit] == snap[hit], "smaller or equal sequence leaves the position")
			vhCover("keep")
		}
	}
	for i := 0; i < len(res); i++ {
		for j := 0; j < i; j++ {
			vhAssert(res[i].Domain != res[j].Domain, "domains stay pairwise distinct")
		}
	}
	// adding to a set never alters the original (its visible elements)
	vhAssert(len(s) == n, "original length unchanged")
	for i := 0; i < n; i++ {
		vhAssert(s[i] == snap[i], "adding to a set must not alter the original")
	}
}

// VH_C19_MariaFork: two sets derived from ONE base whose backing array has spare capacity (as
// after a few successive additions): the second AddGTID must not change the result of the first.
func VH_C19_MariaFork(n int) {
	members := vhMariaSet(n, false)
	base := make(MariadbGTIDSet, n, n+2)
	copy(base, members)
	g1 := MariadbGTID{Domain: vhU32(), Server: vhU32(), Sequence: vhU64()}
	g2 := MariadbGTID{Domain: vhU32(), Server: vhU32(), Sequence: vhU64()}
	r1, ok := base.AddGTID(g1).(MariadbGTIDSet)
	vhAssert(ok, "result is a MariaDB set")
	snap := make([]MariadbGTID, len(r1))
	copy(snap, r1)
	had := r1.ContainsGTID(g1)
	r2, ok2 := base.AddGTID(g2).(MariadbGTIDSet)
	vhAssert(ok2, "result is a MariaDB set")
	vhAssert(len(r1) == len(snap), "earlier result keeps its length")
	for i := range snap {
		vhAssert(r1[i] == snap[i], "a later AddGTID on the same base does not change an earlier result")
	}
	vhAssert(r1.ContainsGTID(g1) == had && had, "the earlier result still contains what was added to it")
	vhAssert(r2.ContainsGTID(g2), "the later result contains what was added to it")
	for i := 0; i < n; i++ {
		vhAssert(base[i] == members[i], "the base is unchanged")
	}
	vhCover("maria-fork")
}

func VH_C19_MariaContains(n int) {
	s := vhMariaSet(n, false)
	g := MariadbGTID{Domain: vhU32(), Server: vhU32(), Sequence: vhU64()}
	got := s.ContainsGTID(g)
	var want uint64
	for i := 0; i < n; i++ {
		want |= vhB2U(s[i].Domain == g.Domain) & vhB2U(s[i].Sequence >= g.Sequence)
	}
	vhAssert(vhB2U(got) == want, "containment compares sequence numbers within the domain")
	vhAssert(s.Contains(MariadbGTIDSet{g}) == got, "Contains of a singleton agrees with ContainsGTID")
	vhAssert(!s.ContainsGTID(Mysql56GTID{}), "foreign flavor is not contained")
	vhCover("maria-contains")
}
