//go:build verif

package replication

// Independent event writer used by the decoding harnesses.  Written from the
// MySQL internals documentation (appendix C of DESIGN.md); it shares no code
// with binlog_event_make.go.

type vw struct{ b []byte }

func (w *vw) u8(v byte)    { w.b = append(w.b, v) }
func (w *vw) u16(v uint16) { w.b = append(w.b, byte(v), byte(v>>8)) }
func (w *vw) u32(v uint32) {
	w.b = append(w.b, byte(v), byte(v>>8), byte(v>>16), byte(v>>24))
}
func (w *vw) u48(v uint64) {
	w.b = append(w.b, byte(v), byte(v>>8), byte(v>>16), byte(v>>24), byte(v>>32), byte(v>>40))
}
func (w *vw) u64(v uint64) {
	w.u32(uint32(v))
	w.u32(uint32(v >> 32))
}
func (w *vw) raw(p []byte) { w.b = append(w.b, p...) }
func (w *vw) str(s string) { w.b = append(w.b, s...) }

// lenenc: MySQL length-encoded integer.
func (w *vw) lenenc(n uint64) {
	switch {
	case n < 251:
		w.u8(byte(n))
	case n < 1<<16:
		w.u8(0xfc)
		w.u16(uint16(n))
	case n < 1<<24:
		w.u8(0xfd)
		w.b = append(w.b, byte(n), byte(n>>8), byte(n>>16))
	default:
		w.u8(0xfe)
		w.u64(n)
	}
}

// event wraps a body into a v4 event: 19-byte header, body, optional 4-byte checksum.
func vwEvent(typ byte, ts, serverID, nextPos uint32, flags uint16, body []byte, crc []byte) []byte {
	w := &vw{}
	total := 19 + len(body) + len(crc)
	w.u32(ts)
	w.u8(typ)
	w.u32(serverID)
	w.u32(uint32(total))
	w.u32(nextPos)
	w.u16(flags)
	w.raw(body)
	w.raw(crc)
	return w.b
}

// Event type codes (MySQL log_event.h).
const (
	vtQuery      = 2
	vtRotate     = 4
	vtIntVar     = 5
	vtRand       = 13
	vtFormatDesc = 15
	vtXID        = 16
	vtTableMap   = 19
	vtWriteV1    = 23
	vtUpdateV1   = 24
	vtDeleteV1   = 25
	vtWriteV2    = 30
	vtUpdateV2   = 31
	vtDeleteV2   = 32
	vtGTID       = 33
	vtPrevGTIDs  = 35
	vtMariaGTID  = 162
)

// vwFormat: the BinlogFormat a FORMAT_DESCRIPTION_EVENT of a 5.6/5.7 server
// would yield (post-header lengths for the events the harnesses use).
func vwFormat(checksumAlg byte, tableIDWidth int) BinlogFormat {
	hs := make([]byte, 40)
	hs[vtQuery-1] = 13
	hs[vtRotate-1] = 8
	hs[vtFormatDesc-1] = 84
	hs[vtXID-1] = 0
	tm, r1, r2 := byte(8), byte(8), byte(10)
	if tableIDWidth == 4 {
		tm, r1, r2 = 6, 6, 8
	}
	hs[vtTableMap-1] = tm
	hs[vtWriteV1-1], hs[vtUpdateV1-1], hs[vtDeleteV1-1] = r1, r1, r1
	hs[vtWriteV2-1], hs[vtUpdateV2-1], hs[vtDeleteV2-1] = r2, r2, r2
	return BinlogFormat{FormatVersion: 4, ServerVersion: "5.7.0", HeaderLength: 19, ChecksumAlgorithm: checksumAlg, HeaderSizes: hs}
}

func (w *vw) tableID(id uint64, width int) {
	if width == 4 {
		w.u32(uint32(id))
	} else {
		w.u48(id)
	}
}

// vwMeta writes per-column metadata in the byte order of the type and
// returns the value TableMap must report.
func vwMetaLen(typ byte) int {
	switch typ {
	case TypeFloat, TypeDouble, TypeTimestamp2, TypeDateTime2, TypeTime2, TypeJSON, TypeTinyBlob, TypeMediumBlob, TypeLongBlob, TypeBlob, TypeGeometry:
		return 1
	case TypeNewDecimal, TypeEnum, TypeSet, TypeString, TypeVarchar, TypeBit, TypeVarString:
		return 2
	}
	return 0
}

func vwMetaBigEndian(typ byte) bool {
	switch typ {
	case TypeNewDecimal, TypeEnum, TypeSet, TypeString:
		return true
	}
	return false
}

// vhSupportedTypes: every column type the decoder supports.
var vhSupportedTypes = []byte{
	TypeDecimal, TypeTiny, TypeShort, TypeLong, TypeFloat, TypeDouble, TypeNull, TypeTimestamp, TypeLongLong, TypeInt24,
	TypeDate, TypeTime, TypeDateTime, TypeYear, TypeNewDate, TypeVarchar, TypeBit, TypeTimestamp2, TypeDateTime2, TypeTime2,
	TypeJSON, TypeNewDecimal, TypeEnum, TypeSet, TypeTinyBlob, TypeMediumBlob, TypeLongBlob, TypeBlob, TypeVarString, TypeString, TypeGeometry,
}

// ---- exported wrappers for the end-to-end harness in package gobinlog ----

// VHWriter is the independent event writer, exported for the gobinlog harness.
type VHWriter struct{ w vw }

func (x *VHWriter) U8(v byte)                    { x.w.u8(v) }
func (x *VHWriter) U16(v uint16)                 { x.w.u16(v) }
func (x *VHWriter) U32(v uint32)                 { x.w.u32(v) }
func (x *VHWriter) U48(v uint64)                 { x.w.u48(v) }
func (x *VHWriter) U64(v uint64)                 { x.w.u64(v) }
func (x *VHWriter) Raw(p []byte)                 { x.w.raw(p) }
func (x *VHWriter) Str(s string)                 { x.w.str(s) }
func (x *VHWriter) LenEnc(n uint64)              { x.w.lenenc(n) }
func (x *VHWriter) Bytes() []byte                { return x.w.b }
func (x *VHWriter) TableID(id uint64, width int) { x.w.tableID(id, width) }

// VHEvent wraps a body into a v4 event (header, body, optional checksum bytes).
func VHEvent(typ byte, ts, serverID, nextPos uint32, flags uint16, body []byte, crc []byte) []byte {
	return vwEvent(typ, ts, serverID, nextPos, flags, body, crc)
}

// VHFormatBody: body of a FORMAT_DESCRIPTION_EVENT announcing the checksum
// algorithm and the post-header lengths for the given table-id width.
func VHFormatBody(alg byte, tableIDWidth int) []byte {
	f := vwFormat(alg, tableIDWidth)
	w := &vw{}
	w.u16(4)
	ver := make([]byte, 50)
	copy(ver, "5.7.0-log")
	w.raw(ver)
	w.u32(0)
	w.u8(19)
	w.raw(f.HeaderSizes)
	w.u8(alg)
	w.raw([]byte{0, 0, 0, 0})
	return w.b
}
