//go:build verif

package replication

// C11: DECIMAL(p,s) -> canonical decimal text.  Reference from MySQL's
// decimal.c (bin2decimal): groups of 9 digits in 4 bytes big-endian, leftover
// digits in {0,1,1,2,2,3,3,4,4,4}[k] bytes, first bit inverted, negative
// values stored with all bytes inverted.

func init() {
	vhRegister("VH_C11_Decimal", func(p []int) { VH_C11_Decimal(p[0], p[1]) })
}

var refDig2Bytes = [...]int{0, 1, 1, 2, 2, 3, 3, 4, 4, 4}

type refGroup struct {
	val    uint64
	digits int
}

func VH_C11_Decimal(p, s int) {
	intg := p - s
	intg0, intg0x := intg/9, intg%9
	frac0, frac0x := s/9, s%9
	l := intg0*4 + refDig2Bytes[intg0x] + frac0*4 + refDig2Bytes[frac0x]
	data := vhBytes(vhPre + l + 1)
	cell := data[vhPre : vhPre+l]

	neg := cell[0]&0x80 == 0
	var m byte
	if neg {
		m = 0xff
	}
	get := func(i int) uint64 {
		b := cell[i] ^ m
		if i == 0 {
			b ^= 0x80
		}
		return uint64(b)
	}
	pos := 0
	rd := func(nb int) uint64 {
		var v uint64
		for k := 0; k < nb; k++ {
			v = v<<8 | get(pos+k)
		}
		pos += nb
		return v
	}
	var ig, fg []refGroup
	if intg0x > 0 {
		ig = append(ig, refGroup{rd(refDig2Bytes[intg0x]), intg0x})
	}
	for i := 0; i < intg0; i++ {
		ig = append(ig, refGroup{rd(4), 9})
	}
	for i := 0; i < frac0; i++ {
		fg = append(fg, refGroup{rd(4), 9})
	}
	if frac0x > 0 {
		fg = append(fg, refGroup{rd(refDig2Bytes[frac0x]), frac0x})
	}
	// representable values only: every group below 10^digits
	for _, g := range ig {
		vhAssume(g.val < vhPow10x[g.digits])
	}
	for _, g := range fg {
		vhAssume(g.val < vhPow10x[g.digits])
	}

	// MySQL never stores a negative zero (decimal2bin clears the sign of zero)
	if neg {
		nz := false
		for _, g := range ig {
			nz = nz || g.val != 0
		}
		for _, g := range fg {
			nz = nz || g.val != 0
		}
		vhAssume(nz)
	}

	out, ln, err := CellBytes(data, vhPre, TypeNewDecimal, uint16(p)<<8|uint16(s), false)
	vhAssert(err == nil, "no error")
	vhAssert(ln == l, "consumed length")
	cl, cerr := cellLength(data, vhPre, TypeNewDecimal, uint16(p)<<8|uint16(s))
	vhAssert(cerr == nil && cl == l, "cellLength agrees")
	vhAssert(out != nil && len(out) > 0, "DECIMAL text must not be empty or nil")
	vhObserveBytes("text", out)

	sc := &vhScan{b: out}
	sign := 0
	if neg {
		sc.lit('-')
		sign = 1
		vhCover("negative")
	} else {
		vhCover("non-negative")
	}
	fl := 0
	if s > 0 {
		fl = s + 1
	}
	n := len(out) - sign - fl // integer digits present in the text
	vhAssert(n >= 1, "at least one integer digit")
	vhAssert(n <= intg || (intg == 0 && n == 1), "no more integer digits than the precision allows")
	if n > 1 {
		vhAssert(out[sign] != '0', "no leading zeros")
	}
	// integer digits, right-aligned onto the groups
	// group k (from the left) covers digit positions [start_k, start_k+digits_k) of the intg-digit number
	skip := intg - n // leading digit positions absent from the text (must be zero digits)
	if intg == 0 {
		vhAssert(out[sign] == '0', "integer part of a pure fraction is 0")
		sc.i++
	} else {
		at := 0
		for _, g := range ig {
			lo, hi := at, at+g.digits // positions of this group
			at = hi
			switch {
			case hi <= skip:
				vhAssert(g.val == 0, "group absent from the text must be zero")
			case lo >= skip:
				vhAssert(sc.num(g.digits) == g.val, "integer group")
			default:
				// partially present: the leading (skip-lo) digits of the group are zero
				vhAssert(sc.num(hi-skip) == g.val, "leading integer group")
			}
		}
	}
	if s > 0 {
		sc.lit('.')
		for _, g := range fg {
			vhAssert(sc.num(g.digits) == g.val, "fraction group")
		}
	}
	sc.end()
}

var vhPow10x = [...]uint64{1, 10, 100, 1000, 10000, 100000, 1000000, 10000000, 100000000, 1000000000}
