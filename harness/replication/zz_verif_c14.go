//go:build verif

package replication

import (
	"fmt"
	"math"
	"strconv"
)

// C14: JSON columns.  An independent writer (after MySQL's json_binary.cc)
// lays documents out in the small or large storage format; the expected text
// is rendered by a reference printer from the document, not from the bytes.

func init() {
	vhRegister("VH_C14_Scalar", func(p []int) { VH_C14_Scalar(p[0], p[1], p[2]) })
	vhRegister("VH_C14_VarLen", func(p []int) { VH_C14_VarLen(p[0], p[1]) })
	vhRegister("VH_C14_LongString", func(p []int) { VH_C14_LongString(p[0], p[1], p[2]) })
	vhRegister("VH_C14_Struct", func(p []int) { VH_C14_Struct(p[0], p[1]) })
}

const (
	jObject = iota
	jArray
	jLiteral
	jInt16
	jUint16
	jInt32
	jUint32
	jInt64
	jUint64
	jDouble
	jString
	jDate
	jTime
	jDateTime
	jDecimal
	jKinds
)

type jv struct {
	kind int
	kids []*jv
	keys [][]byte
	lit  byte   // literal code
	u    uint64 // integer payload / double bits / packed temporal
	str  []byte
	dec  []byte // decimal storage bytes
	p, s int    // decimal precision/scale
	own  int    // containers: 0 = stored in the enclosing container's format, 1 = small, 2 = large
}

// jLarge: the storage format of a nested container. The server sizes every container on its
// own (small first, large when an offset does not fit), so a large parent normally holds SMALL
// children; the child's type byte says which.
func jLarge(v *jv, parent bool) bool {
	switch v.own {
	case 1:
		return false
	case 2:
		return true
	}
	return parent
}

// ---- writer ----

func jTypeByte(v *jv, large bool) byte {
	switch v.kind {
	case jObject:
		if jLarge(v, large) {
			return 1
		}
		return 0
	case jArray:
		if jLarge(v, large) {
			return 3
		}
		return 2
	case jLiteral:
		return 4
	case jInt16:
		return 5
	case jUint16:
		return 6
	case jInt32:
		return 7
	case jUint32:
		return 8
	case jInt64:
		return 9
	case jUint64:
		return 10
	case jDouble:
		return 11
	case jString:
		return 12
	}
	return 15
}

func jInlined(v *jv, large bool) bool {
	switch v.kind {
	case jLiteral, jInt16, jUint16:
		return true
	case jInt32, jUint32:
		return large
	}
	return false
}

func jVarLen(w *vw, n int) {
	for {
		b := byte(n & 0x7f)
		n >>= 7
		if n != 0 {
			w.u8(b | 0x80)
		} else {
			w.u8(b)
			return
		}
	}
}

// jValue serialises the value part (without the type byte).
func jValue(v *jv, large bool) []byte {
	w := &vw{}
	switch v.kind {
	case jObject, jArray:
		return jContainer(v, jLarge(v, large))
	case jLiteral:
		w.u8(v.lit)
	case jInt16, jUint16:
		w.u16(uint16(v.u))
	case jInt32, jUint32:
		w.u32(uint32(v.u))
	case jInt64, jUint64, jDouble:
		w.u64(v.u)
	case jString:
		jVarLen(w, len(v.str))
		w.raw(v.str)
	case jDate, jTime, jDateTime:
		w.u8(map[int]byte{jDate: TypeDate, jTime: TypeTime, jDateTime: TypeDateTime}[v.kind])
		jVarLen(w, 8)
		w.u64(v.u)
	case jDecimal:
		w.u8(TypeNewDecimal)
		jVarLen(w, 2+len(v.dec))
		w.u8(byte(v.p))
		w.u8(byte(v.s))
		w.raw(v.dec)
	}
	return w.b
}

func jContainer(v *jv, large bool) []byte {
	n := len(v.kids)
	osz := 2
	if large {
		osz = 4
	}
	put := func(w *vw, x int) {
		if large {
			w.u32(uint32(x))
		} else {
			w.u16(uint16(x))
		}
	}
	hdr := 2 * osz
	keyEntries := 0
	if v.kind == jObject {
		keyEntries = n * (osz + 2)
	}
	valEntries := n * (1 + osz)
	off := hdr + keyEntries + valEntries
	// keys
	keyOff := make([]int, n)
	if v.kind == jObject {
		for i := 0; i < n; i++ {
			keyOff[i] = off
			off += len(v.keys[i])
		}
	}
	// out-of-line values
	valOff := make([]int, n)
	valBytes := make([][]byte, n)
	for i, k := range v.kids {
		if jInlined(k, large) {
			continue
		}
		valBytes[i] = jValue(k, large)
		valOff[i] = off
		off += len(valBytes[i])
	}
	w := &vw{}
	put(w, n)
	put(w, off)
	if v.kind == jObject {
		for i := 0; i < n; i++ {
			put(w, keyOff[i])
			w.u16(uint16(len(v.keys[i])))
		}
	}
	for i, k := range v.kids {
		w.u8(jTypeByte(k, large))
		if jInlined(k, large) {
			iv := jValue(k, large)
			w.raw(iv)
			for p := len(iv); p < osz; p++ {
				w.u8(0)
			}
		} else {
			put(w, valOff[i])
		}
	}
	if v.kind == jObject {
		for i := 0; i < n; i++ {
			w.raw(v.keys[i])
		}
	}
	for i := range v.kids {
		w.raw(valBytes[i])
	}
	return w.b
}

// ---- reference printer ----

func jPrint(dst []byte, v *jv, top bool) []byte {
	q := func() {
		if top {
			dst = append(dst, '\'')
		}
	}
	switch v.kind {
	case jObject:
		dst = append(dst, "JSON_OBJECT("...)
		for i, k := range v.kids {
			if i > 0 {
				dst = append(dst, ',')
			}
			dst = append(dst, '\'')
			dst = append(dst, v.keys[i]...)
			dst = append(dst, '\'', ',')
			dst = jPrint(dst, k, false)
		}
		return append(dst, ')')
	case jArray:
		dst = append(dst, "JSON_ARRAY("...)
		for i, k := range v.kids {
			if i > 0 {
				dst = append(dst, ',')
			}
			dst = jPrint(dst, k, false)
		}
		return append(dst, ')')
	case jLiteral:
		q()
		dst = append(dst, []string{"null", "true", "false"}[v.lit]...)
		q()
	case jInt16:
		q()
		dst = strconv.AppendInt(dst, int64(int16(v.u)), 10)
		q()
	case jUint16:
		q()
		dst = strconv.AppendUint(dst, uint64(uint16(v.u)), 10)
		q()
	case jInt32:
		q()
		dst = strconv.AppendInt(dst, int64(int32(v.u)), 10)
		q()
	case jUint32:
		q()
		dst = strconv.AppendUint(dst, uint64(uint32(v.u)), 10)
		q()
	case jInt64:
		q()
		dst = strconv.AppendInt(dst, int64(v.u), 10)
		q()
	case jUint64:
		q()
		dst = strconv.AppendUint(dst, v.u, 10)
		q()
	case jDouble:
		q()
		dst = strconv.AppendFloat(dst, math.Float64frombits(v.u), 'E', -1, 64)
		q()
	case jString:
		if top {
			dst = append(dst, '\'', '"')
			dst = append(dst, v.str...)
			return append(dst, '"', '\'')
		}
		dst = append(dst, '\'')
		dst = append(dst, v.str...)
		return append(dst, '\'')
	case jDate, jTime, jDateTime:
		tmp := int64(v.u)
		neg := tmp < 0
		if neg {
			tmp = -tmp
		}
		usec := uint64(tmp) & 0xffffff
		hms := (uint64(tmp) >> 24) & 0x1ffff
		ymd := uint64(tmp) >> (24 + 17)
		ym := ymd >> 5
		year, month, day := ym/13, ym%13, ymd&31
		hour, minute, second := hms>>12, (hms>>6)&63, hms&63
		if top {
			dst = append(dst, "CAST("...)
		}
		dst = append(dst, "CAST('"...)
		switch v.kind {
		case jDate:
			dst = append(dst, fmt.Sprintf("%04d-%02d-%02d", year, month, day)...)
			dst = append(dst, "' AS DATE)"...)
		case jTime:
			if neg {
				dst = append(dst, '-')
			}
			hour = (uint64(tmp) >> (24 + 12)) & 0x3ff
			dst = append(dst, fmt.Sprintf("%02d:%02d:%02d", hour, minute, second)...)
			if usec != 0 {
				dst = append(dst, fmt.Sprintf(".%06d", usec)...)
			}
			dst = append(dst, "' AS TIME(6))"...)
		case jDateTime:
			dst = append(dst, fmt.Sprintf("%04d-%02d-%02d %02d:%02d:%02d", year, month, day, hour, minute, second)...)
			if usec != 0 {
				dst = append(dst, fmt.Sprintf(".%06d", usec)...)
			}
			dst = append(dst, "' AS DATETIME(6))"...)
		}
		if top {
			dst = append(dst, " AS JSON)"...)
		}
	}
	return dst
}

// jScalar draws a scalar of the given kind with symbolic payload (valid values).
func jScalar(kind int) *jv {
	v := &jv{kind: kind}
	switch kind {
	case jLiteral:
		v.lit = byte(vhChoose(3))
	case jInt16, jUint16:
		v.u = uint64(vhU16())
	case jInt32, jUint32:
		v.u = uint64(vhU32())
	case jInt64, jUint64, jDouble:
		v.u = vhU64()
	case jString:
		v.str = vhBytes(vhChoose(3))
	case jDate, jDateTime, jTime:
		v.u = vhU64()
		tmp := int64(v.u)
		if kind == jTime {
			if tmp < 0 {
				tmp = -tmp
			}
			hms := uint64(tmp) >> 24
			vhAssume(hms>>22 == 0 && (hms>>12)&0x3ff <= 838)
		} else {
			vhAssume(tmp >= 0)
			ymd := uint64(tmp) >> (24 + 17)
			vhAssume((ymd>>5)/13 <= 9999 && ((uint64(tmp)>>36)&31) <= 23)
			if kind == jDate {
				vhAssume(uint64(tmp)&0x1ffffffffff == 0)
			}
		}
		vhAssume((uint64(tmp)>>30)&63 <= 59 && (uint64(tmp)>>24)&63 <= 59 && uint64(tmp)&0xffffff <= 999999)
	}
	return v
}

// VH_C14_Scalar: one scalar of `kind` at position pos: 0 top level, 1 in an array, 2 in an object; large 0/1.
func VH_C14_Scalar(kind, pos, large int) {
	if kind == jDecimal {
		vhC14Decimal(pos, large)
		return
	}
	sc := jScalar(kind)
	doc := sc
	switch pos {
	case 1:
		doc = &jv{kind: jArray, kids: []*jv{jScalar(jLiteral), sc}}
	case 2:
		doc = &jv{kind: jObject, kids: []*jv{sc}, keys: [][]byte{vhBytes(2)}}
	}
	w := &vw{}
	w.u8(jTypeByte(doc, large == 1))
	w.raw(jValue(doc, large == 1))
	got, err := printJSONData(w.b)
	vhAssert(err == nil, "no error")
	if kind == jDouble {
		// the number text is strconv's: finite values round-trip by its contract
		vhAssume(sc.u&0x7ff0000000000000 != 0x7ff0000000000000)
		if pos == 0 {
			f, perr := strconv.ParseFloat(string(got[1:len(got)-1]), 64)
			vhAssert(perr == nil && math.Float64bits(f) == sc.u, "double round trip")
		}
	}
	want := jPrint(nil, doc, true)
	vhObserveBytes("text", got)
	vhAssert(len(got) == len(want), "rendered length")
	for i := 0; i < len(want); i++ {
		vhAssert(got[i] == want[i], "rendered document text")
	}
	vhCover("scalar")
}

func vhC14Decimal(pos, large int) {
	// DECIMAL(5,2): 2 + 1 bytes; canonical text comes from the C11 decoder
	d := vhBytes(3)
	sc := &jv{kind: jDecimal, p: 5, s: 2, dec: d}
	doc := sc
	if pos == 1 {
		doc = &jv{kind: jArray, kids: []*jv{sc}}
	}
	w := &vw{}
	w.u8(jTypeByte(doc, large == 1))
	w.raw(jValue(doc, large == 1))
	got, err := printJSONData(w.b)
	vhAssert(err == nil, "no error")
	val, _, derr := CellBytes(d, 0, TypeNewDecimal, 5<<8|2, false)
	vhAssert(derr == nil, "decimal decodes")
	var want []byte
	if pos == 1 {
		want = append(want, "JSON_ARRAY("...)
	} else {
		want = append(want, "CAST("...)
	}
	want = append(want, "CAST('"...)
	want = append(want, val...)
	want = append(want, "' AS DECIMAL(5,2))"...)
	if pos == 1 {
		want = append(want, ')')
	} else {
		want = append(want, " AS JSON)"...)
	}
	vhAssert(len(got) == len(want), "rendered length")
	for i := 0; i < len(want); i++ {
		vhAssert(got[i] == want[i], "rendered decimal document")
	}
	vhCover("decimal")
}

// jCheap draws a child for the structure harness: cheap scalars (the scalar
// decoders are the subject of VH_C14_Scalar) and nested containers.
// jFan is the fan-out bound below the top level (2; 1 for depth-3 documents, whose full fan-out-2 space
// has ~4*10^7 shapes).
var jFan = 2

// jMixed: every nested container chooses its own storage format (small or large) independently
// of the container that holds it.
var jMixed = false

func jCheap(depth int) *jv {
	k := vhChoose(6)
	if depth == 0 && k >= 4 {
		k -= 4
	}
	switch k {
	case 0:
		return &jv{kind: jLiteral, lit: 1}
	case 1:
		return &jv{kind: jString, str: vhBytes(1)}
	case 2:
		return &jv{kind: jInt16, u: uint64(vhU8() & 7)}
	case 3:
		return &jv{kind: jUint32, u: uint64(vhU8()&7) + 70000}
	case 4:
		n := vhChoose(jFan + 1)
		a := &jv{kind: jArray}
		if jMixed {
			a.own = 1 + vhChoose(2)
		}
		for i := 0; i < n; i++ {
			a.kids = append(a.kids, jCheap(depth-1))
		}
		return a
	}
	n := vhChoose(jFan + 1)
	o := &jv{kind: jObject}
	if jMixed {
		o.own = 1 + vhChoose(2)
	}
	for i := 0; i < n; i++ {
		o.kids = append(o.kids, jCheap(depth-1))
		o.keys = append(o.keys, vhBytes(1+i))
	}
	return o
}

// VH_C14_Struct: nesting depth <= depth, fan-out <= 2, small (0) or large (1) format throughout;
// large 2 / 3: top level large / small and every nested container in a format of its own, fan-out
// <= 1 below the top level; 4 / 5: the same with the full fan-out.
func VH_C14_Struct(depth, large int) {
	jFan = 2
	jMixed = large >= 2
	if large >= 4 { // 4 / 5: as 2 / 3 with the full fan-out below the top level
		large -= 2
	} else if large >= 2 {
		jFan = 1
	}
	if large >= 2 {
		large = 3 - large // 2 -> large top, 3 -> small top
	}
	if depth >= 3 {
		jFan = 1 // depth 3: fan-out <= 2 at the top level, <= 1 below
	}
	top := &jv{kind: []int{jObject, jArray}[vhChoose(2)]}
	n := vhChoose(3)
	for i := 0; i < n; i++ {
		top.kids = append(top.kids, jCheap(depth-1))
		if top.kind == jObject {
			top.keys = append(top.keys, vhBytes(2-i))
		}
	}
	w := &vw{}
	w.u8(jTypeByte(top, large == 1))
	w.raw(jValue(top, large == 1))
	// through the column decoder: blob with 2 length bytes
	cell := &vw{}
	cell.u16(uint16(len(w.b)))
	cell.raw(w.b)
	got, l, err := CellBytes(cell.b, 0, TypeJSON, 2, false)
	vhAssert(err == nil, "no error")
	vhAssert(l == len(cell.b), "consumed length")
	want := jPrint(nil, top, true)
	vhAssert(len(got) == len(want), "rendered length")
	for i := 0; i < len(want); i++ {
		vhAssert(got[i] == want[i], "rendered document: keys, values, order and nesting")
	}
	vhCover("struct")
}

// VH_C14_VarLen: the variable-length integer in front of strings and opaque values, for every
// encoding of n bytes (7 value bits per byte, high bit = "another byte follows") at offset off:
// the decoded value is the little-endian concatenation of the 7-bit groups and exactly n bytes
// are consumed.
func VH_C14_VarLen(n, off int) {
	buf := vhBytes(off + n + 2)
	want := 0
	for i := 0; i < n; i++ {
		b := buf[off+i]
		if i < n-1 {
			vhAssume(b&0x80 != 0)
		} else {
			vhAssume(b&0x80 == 0)
		}
		want |= int(b&0x7f) << uint(7*i)
	}
	got, pos := readVariableLength(buf, off)
	vhAssert(got == want, "variable-length integer value")
	vhAssert(pos == off+n, "variable-length integer consumes exactly its bytes")
	vhCover("varlen")
}

// VH_C14_LongString: a string of n bytes (first two and last two symbolic, the rest a concrete
// filler) at top level / in an array / in an object: lengths around the 1- to 2-byte boundary of
// the length prefix and its multiples.
func VH_C14_LongString(n, pos, large int) {
	str := make([]byte, n)
	for i := range str {
		str[i] = 'a' + byte(i%26)
	}
	for _, i := range []int{0, 1, n - 2, n - 1} {
		c := vhU8()
		vhAssume(c >= 0x20 && c < 0x7f && c != '"' && c != '\\')
		str[i] = c
	}
	sc := &jv{kind: jString, str: str}
	doc := sc
	switch pos {
	case 1:
		doc = &jv{kind: jArray, kids: []*jv{jScalar(jLiteral), sc}}
	case 2:
		doc = &jv{kind: jObject, kids: []*jv{sc}, keys: [][]byte{vhBytes(2)}}
	case 3:
		// an out-of-line value BEHIND the long string: its offset lies beyond the string
		doc = &jv{kind: jArray, kids: []*jv{sc, &jv{kind: jString, str: vhBytes(2)}, &jv{kind: jInt64, u: vhU64()}}}
	case 4:
		// what the server writes for a document beyond 64 KB: the outer container large, the
		// nested containers (which fit 16-bit offsets) small
		doc = &jv{kind: jArray, kids: []*jv{sc,
			&jv{kind: jObject, own: 1, kids: []*jv{{kind: jInt16, u: uint64(vhU8() & 7)}}, keys: [][]byte{vhBytes(1)}},
			&jv{kind: jArray, own: 1, kids: []*jv{{kind: jLiteral, lit: 1}}}}}
	}
	w := &vw{}
	w.u8(jTypeByte(doc, large == 1))
	w.raw(jValue(doc, large == 1))
	got, err := printJSONData(w.b)
	vhAssert(err == nil, "no error")
	want := jPrint(nil, doc, true)
	vhAssert(len(got) == len(want), "rendered length")
	for i := 0; i < len(want); i++ {
		vhAssert(got[i] == want[i], "rendered document text")
	}
	vhCover("longstring")
}
