//go:build verif

package replication

// C18: MySQL 5.6 GTID sets as mathematical sets of (SID, sequence) pairs.
// Pre-states are arbitrary canonical interval lists (symbolic 63-bit bounds);
// a fresh symbolic probe plays the universally quantified element.

func init() {
	vhRegister("VH_C18_Add", func(p []int) { VH_C18_Add(p[0], p[1]) })
	vhRegister("VH_C18_ContainsGTID", func(p []int) { VH_C18_ContainsGTID(p[0]) })
	vhRegister("VH_C18_Contains", func(p []int) { VH_C18_Contains(p[0], p[1], p[2]) })
	vhRegister("VH_C18_Equal", func(p []int) { VH_C18_Equal(p[0], p[1], p[2]) })
	vhRegister("VH_C18_AddSeq", func(p []int) { VH_C18_AddSeq(p[0]) })
	vhRegister("VH_C18_SIDOrder", func(p []int) { VH_C18_SIDOrder(p[0]) })
	vhRegister("VH_C18_AddTwice", func(p []int) { VH_C18_AddTwice(p[0], p[1]) })
}

var vhSIDs = []SID{
	{0x11, 0x11, 0x11, 0x11, 0x11, 0x11, 0x11, 0x11, 0x11, 0x11, 0x11, 0x11, 0x11, 0x11, 0x11, 0x11},
	{0x22, 0x22, 0x22, 0x22, 0x22, 0x22, 0x22, 0x22, 0x22, 0x22, 0x22, 0x22, 0x22, 0x22, 0x22, 0x22},
	{0x0a, 0x33, 0x33, 0x33, 0x33, 0x33, 0x33, 0x33, 0x33, 0x33, 0x33, 0x33, 0x33, 0x33, 0x33, 0x33},
}

const vhMaxSeq = int64(1)<<62 - 1 // keeps end+1 and start-1 away from overflow

// vhCanonList draws a canonical interval list of length k: 1 <= start <= end,
// end_i + 1 < start_{i+1}.
func vhCanonList(k int) []interval {
	ivs := make([]interval, k)
	for i := 0; i < k; i++ {
		s, e := vhI64(), vhI64()
		vhAssume(s >= 1 && s <= e && e <= vhMaxSeq)
		if i > 0 {
			vhAssume(ivs[i-1].end+1 < s)
		}
		ivs[i] = interval{s, e}
	}
	return ivs
}

// member: x in the union of the intervals, computed without branching.
func vhMember(ivs []interval, x int64) uint64 {
	var in uint64
	for _, iv := range ivs {
		in |= vhB2U(iv.start <= x) & vhB2U(x <= iv.end)
	}
	return in
}

func vhIsCanon(ivs []interval) uint64 {
	ok := uint64(1)
	for i, iv := range ivs {
		ok &= vhB2U(iv.start >= 1) & vhB2U(iv.start <= iv.end)
		if i > 0 {
			ok &= vhB2U(ivs[i-1].end+1 < iv.start)
		}
	}
	return ok
}

func vhCopyList(ivs []interval) []interval {
	c := make([]interval, len(ivs))
	copy(c, ivs)
	return c
}

// VH_C18_Add: set = {sid0: k canonical intervals [, sid1: one interval]}; other selects
// the second SID; the GTID's server is chosen among sid0, sid1 and a new sid2.
func VH_C18_Add(k, other int) {
	set := Mysql56GTIDSet{}
	ivs := vhCanonList(k)
	if k > 0 {
		set[vhSIDs[0]] = ivs
	}
	var ivs1 []interval
	if other == 1 {
		ivs1 = vhCanonList(1)
		set[vhSIDs[1]] = ivs1
	}
	snap0, snap1 := vhCopyList(ivs), vhCopyList(ivs1)
	nkeys := len(set)

	gs := vhChoose(3)
	g := Mysql56GTID{Server: vhSIDs[gs], Sequence: vhI64()}
	vhAssume(g.Sequence >= 1 && g.Sequence <= vhMaxSeq)

	resI := set.AddGTID(g)
	res, ok := resI.(Mysql56GTIDSet)
	vhAssert(ok, "result is a MySQL 5.6 set")

	// exactly the union with g, for a universally quantified probe element
	x := vhI64()
	vhAssume(x >= 1 && x <= vhMaxSeq)
	for s := 0; s < 3; s++ {
		var before []interval
		switch s {
		case 0:
			before = snap0
		case 1:
			before = snap1
		}
		want := vhMember(before, x)
		if s == gs {
			want |= vhB2U(x == g.Sequence)
		}
		vhAssert(vhMember(res[vhSIDs[s]], x) == want, "AddGTID result is exactly the union with the GTID")
		vhAssert(vhIsCanon(res[vhSIDs[s]]) == 1, "result intervals sorted, disjoint and merged")
		if len(res[vhSIDs[s]]) == 0 {
			_, present := res[vhSIDs[s]]
			vhAssert(!present, "no empty interval list in the result")
		}
	}
	// the set it was added to is unchanged
	vhAssert(len(set) == nkeys, "original key set unchanged")
	if k > 0 {
		vhAssert(len(set[vhSIDs[0]]) == k, "original interval count unchanged")
		for i := 0; i < k; i++ {
			vhAssert(set[vhSIDs[0]][i] == snap0[i], "original intervals unchanged")
		}
	}
	if other == 1 {
		vhAssert(len(set[vhSIDs[1]]) == 1 && set[vhSIDs[1]][0] == snap1[0], "original second SID unchanged")
	}
	vhCover("add")
}

func VH_C18_ContainsGTID(k int) {
	set := Mysql56GTIDSet{}
	ivs := vhCanonList(k)
	if k > 0 {
		set[vhSIDs[0]] = ivs
	}
	set[vhSIDs[1]] = []interval{{5, 9}}
	gs := vhChoose(3)
	g := Mysql56GTID{Server: vhSIDs[gs], Sequence: vhI64()}
	vhAssume(g.Sequence >= 1)
	got := set.ContainsGTID(g)
	var want uint64
	switch gs {
	case 0:
		want = vhMember(ivs, g.Sequence)
	case 1:
		want = vhB2U(g.Sequence >= 5) & vhB2U(g.Sequence <= 9)
	}
	vhAssert(vhB2U(got) == want, "ContainsGTID agrees with membership")
	vhAssert(!set.ContainsGTID(MariadbGTID{Domain: 1, Server: 1, Sequence: uint64(g.Sequence)}), "foreign flavor is not contained")
	vhCover("containsgtid")
}

// subsetFormula: every interval of b lies inside one interval of a (a canonical).
func vhSubset(a, b []interval) uint64 {
	ok := uint64(1)
	for _, ib := range b {
		in := uint64(0)
		for _, ia := range a {
			in |= vhB2U(ia.start <= ib.start) & vhB2U(ib.end <= ia.end)
		}
		ok &= in
	}
	return ok
}

// VH_C18_Contains: a has k1, b has k2 intervals for sid0; extra: 0 none, 1 b has a SID a lacks, 2 a has a SID b lacks.
func VH_C18_Contains(k1, k2, extra int) {
	a, b := Mysql56GTIDSet{}, Mysql56GTIDSet{}
	la, lb := vhCanonList(k1), vhCanonList(k2)
	if k1 > 0 {
		a[vhSIDs[0]] = la
	}
	if k2 > 0 {
		b[vhSIDs[0]] = lb
	}
	switch extra {
	case 1:
		b[vhSIDs[1]] = []interval{{3, 3}}
	case 2:
		a[vhSIDs[1]] = []interval{{3, 3}}
	}
	got := a.Contains(b)
	want := vhSubset(la, lb)
	if extra == 1 {
		want = 0
	}
	vhAssert(vhB2U(got) == want, "Contains agrees with the interval characterisation of superset")
	// link the characterisation to the element-wise meaning (sid0)
	x := vhI64()
	vhAssume(x >= 1)
	sub := vhSubset(la, lb)
	vhAssert(sub == 0 || vhMember(lb, x) == 0 || vhMember(la, x) == 1, "superset: every element of b is in a")
	// not a subset: some endpoint of b, or the element after an interval of a, is in b but not in a
	var wit uint64
	for _, ib := range lb {
		wit |= 1 &^ vhMember(la, ib.start)
		wit |= 1 &^ vhMember(la, ib.end)
		for _, ia := range la {
			wit |= vhB2U(ib.start <= ia.end+1) & vhB2U(ia.end+1 <= ib.end)
		}
	}
	vhAssert(sub == 1 || wit == 1, "not a superset: a witness element exists")
	vhAssert(!a.Contains(MariadbGTIDSet{}), "foreign flavor set is not contained")
	vhCover("contains")
}

// VH_C18_Equal: sets over sid0 with k1 / k2 intervals; extra as in Contains.
func VH_C18_Equal(k1, k2, extra int) {
	a, b := Mysql56GTIDSet{}, Mysql56GTIDSet{}
	la, lb := vhCanonList(k1), vhCanonList(k2)
	if k1 > 0 {
		a[vhSIDs[0]] = la
	}
	if k2 > 0 {
		b[vhSIDs[0]] = lb
	}
	switch extra {
	case 1:
		b[vhSIDs[1]] = []interval{{3, 3}}
	case 2:
		a[vhSIDs[1]] = []interval{{3, 3}}
		b[vhSIDs[2]] = []interval{{3, 3}}
	case 3:
		a[vhSIDs[1]] = []interval{{3, 4}}
		b[vhSIDs[1]] = []interval{{3, 4}}
	}
	got := a.Equal(b)
	same := vhB2U(k1 == k2)
	if k1 == k2 {
		for i := 0; i < k1; i++ {
			same &= vhB2U(la[i].start == lb[i].start) & vhB2U(la[i].end == lb[i].end)
		}
	}
	want := same
	if extra == 1 || extra == 2 {
		want = 0
	}
	vhAssert(vhB2U(got) == want, "Equal agrees with list identity of canonical sets")
	vhAssert(a.Equal(b) == b.Equal(a), "Equal is symmetric")
	// canonical lists are identical iff they denote the same set
	x := vhI64()
	vhAssume(x >= 1)
	vhAssert(same == 0 || vhMember(la, x) == vhMember(lb, x), "identical lists denote the same set")
	var wit uint64
	for _, iv := range la {
		wit |= vhMember(la, iv.start) ^ vhMember(lb, iv.start)
		wit |= vhMember(la, iv.end) ^ vhMember(lb, iv.end)
		wit |= vhMember(la, iv.end+1) ^ vhMember(lb, iv.end+1)
	}
	for _, iv := range lb {
		wit |= vhMember(la, iv.start) ^ vhMember(lb, iv.start)
		wit |= vhMember(la, iv.end) ^ vhMember(lb, iv.end)
		wit |= vhMember(la, iv.end+1) ^ vhMember(lb, iv.end+1)
	}
	vhAssert(same == 1 || wit == 1, "different canonical lists differ in some element")
	vhAssert(!a.Equal(MariadbGTIDSet{}), "foreign flavor set is not equal")
	vhCover("equal")
}

// VH_C18_AddSeq: n successive AddGTID from the empty set, GTIDs over two SIDs in a
// window of 8 sequence numbers; the result is canonical and has exactly the added elements.
func VH_C18_AddSeq(n int) {
	var cur GTIDSet = Mysql56GTIDSet{}
	var sids [12]int
	var seqs [12]int64
	for i := 0; i < n; i++ {
		sids[i] = vhChoose(2)
		seqs[i] = int64(vhU8()%8) + 1
		prev := cur
		cur = cur.AddGTID(Mysql56GTID{Server: vhSIDs[sids[i]], Sequence: seqs[i]})
		_ = prev
	}
	res := cur.(Mysql56GTIDSet)
	x := int64(vhU8()%10) + 1
	for s := 0; s < 2; s++ {
		var want uint64
		for i := 0; i < n; i++ {
			if sids[i] == s {
				want |= vhB2U(seqs[i] == x)
			}
		}
		vhAssert(vhMember(res[vhSIDs[s]], x) == want, "after a sequence of AddGTID the set has exactly the added elements")
		vhAssert(vhIsCanon(res[vhSIDs[s]]) == 1, "canonical after a sequence of AddGTID")
	}
	vhCover("addseq")
}

// VH_C18_AddTwice: sets are values.  From one base set (k canonical intervals whose slice has
// `spare` unused capacity, as slices decoded from a SID block or grown by an earlier merge do)
// two sets are derived, a = base + g1 and then b = base + g2.  The later AddGTID must not change
// the earlier result: a is still exactly base + g1 for a universally quantified probe element,
// b is exactly base + g2, and the base is unchanged.
func VH_C18_AddTwice(k, spare int) {
	ivs := vhCanonList(k)
	held := make([]interval, k, k+spare)
	copy(held, ivs)
	base := Mysql56GTIDSet{}
	if k > 0 {
		base[vhSIDs[0]] = held
	}
	s1, s2 := vhChoose(2), vhChoose(2) // each GTID on the SID of the base or on another one
	g1 := Mysql56GTID{Server: vhSIDs[s1], Sequence: vhI64()}
	g2 := Mysql56GTID{Server: vhSIDs[s2], Sequence: vhI64()}
	vhAssume(g1.Sequence >= 1 && g1.Sequence <= vhMaxSeq && g2.Sequence >= 1 && g2.Sequence <= vhMaxSeq)
	a, okA := base.AddGTID(g1).(Mysql56GTIDSet)
	vhAssert(okA, "result is a MySQL 5.6 set")
	b, okB := base.AddGTID(g2).(Mysql56GTIDSet)
	vhAssert(okB, "result is a MySQL 5.6 set")
	x := vhI64()
	vhAssume(x >= 1 && x <= vhMaxSeq)
	for s := 0; s < 2; s++ {
		var before []interval
		if s == 0 {
			before = ivs
		}
		wantA, wantB := vhMember(before, x), vhMember(before, x)
		if s == s1 {
			wantA |= vhB2U(x == g1.Sequence)
		}
		if s == s2 {
			wantB |= vhB2U(x == g2.Sequence)
		}
		vhAssert(vhMember(a[vhSIDs[s]], x) == wantA, "an earlier AddGTID result is still exactly base + its GTID after another AddGTID on the same base")
		vhAssert(vhIsCanon(a[vhSIDs[s]]) == 1, "earlier result still canonical")
		vhAssert(vhMember(b[vhSIDs[s]], x) == wantB, "the later AddGTID result is exactly base + its GTID")
		vhAssert(vhIsCanon(b[vhSIDs[s]]) == 1, "later result canonical")
	}
	if k > 0 {
		vhAssert(len(base[vhSIDs[0]]) == k, "base interval count unchanged")
		for i := 0; i < k; i++ {
			vhAssert(base[vhSIDs[0]][i] == ivs[i], "base intervals unchanged")
		}
	}
	vhCover("addtwice")
}

// VH_C18_SIDOrder: the canonical form lists server UUIDs in ascending byte order. n UUIDs whose
// bytes 0, 7, 8 and 15 are free (the others equal), pairwise different: SIDs() returns them in
// ascending lexicographic order (an independent byte-by-byte comparison), String() starts with the
// smallest, and the text parses back to an equal set.
func VH_C18_SIDOrder(n int) {
	sids := make([]SID, n)
	set := Mysql56GTIDSet{}
	for i := range sids {
		for j := range sids[i] {
			sids[i][j] = 0x40
		}
		for _, j := range []int{0, 7, 8, 15} {
			sids[i][j] = vhU8()
		}
		for k := 0; k < i; k++ {
			vhAssume(sids[k] != sids[i])
		}
		set[sids[i]] = []interval{{int64(i + 1), int64(i + 1)}}
	}
	less := func(a, b SID) bool {
		for j := 0; j < 16; j++ {
			if a[j] != b[j] {
				return a[j] < b[j]
			}
		}
		return false
	}
	got := set.SIDs()
	vhAssert(len(got) == n, "every UUID listed once")
	for i := 1; i < len(got); i++ {
		vhAssert(less(got[i-1], got[i]), "UUIDs in ascending byte order")
	}
	txt := set.String()
	first := got[0].String()
	vhAssert(len(txt) >= len(first), "text starts with a UUID")
	for i := 0; i < len(first); i++ {
		vhAssert(txt[i] == first[i], "the text lists the smallest UUID first")
	}
	back, err := parseMysql56GTIDSet(txt)
	vhAssert(err == nil && set.Equal(back) && back.Equal(set), "canonical text parses back to an equal set")
	vhCover("sid-order")
}
