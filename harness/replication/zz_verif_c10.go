//go:build verif

package replication

import (
	"bytes"
	"math"
	"strconv"
)

// C10: integers, floats, YEAR, BIT, ENUM, SET.

func init() {
	vhRegister("VH_C10_Int", func(p []int) { VH_C10_Int(p[0], p[1]) })
	vhRegister("VH_C10_Float", func(p []int) { VH_C10_Float(p[0]) })
	vhRegister("VH_C10_Year", func(p []int) { VH_C10_Year() })
	vhRegister("VH_C10_Bit", func(p []int) { VH_C10_Bit() })
	vhRegister("VH_C10_Enum", func(p []int) { VH_C10_Enum(p[0], p[1]) })
	vhRegister("VH_C10_Set", func(p []int) { VH_C10_Set(p[0], p[1]) })
}

// vhCanonDec asserts that txt is a canonical decimal integer and returns its
// sign and magnitude (through strconv, whose inverse contract the engine knows).
func vhCanonDec(txt []byte) (neg bool, mag uint64) {
	vhAssert(txt != nil && len(txt) >= 1, "decimal text must not be empty")
	d := txt
	if txt[0] == '-' {
		neg = true
		d = txt[1:]
		vhAssert(len(d) >= 1, "sign without digits")
	}
	if len(d) > 1 {
		vhAssert(d[0] != '0', "leading zero")
	}
	for i := 0; i < len(d); i++ {
		vhAssert(d[i] >= '0' && d[i] <= '9', "non-digit character")
	}
	m, err := strconv.ParseUint(string(d), 10, 64)
	vhAssert(err == nil, "decimal text does not parse")
	if neg {
		vhAssert(m != 0, "negative zero")
	}
	return neg, m
}

func vhLE(b []byte) uint64 {
	var v uint64
	for i := len(b) - 1; i >= 0; i-- {
		v = v<<8 | uint64(b[i])
	}
	return v
}

const vhPre = 2 // junk bytes before the cell

// VH_C10_Int: typ in {TINY,SHORT,INT24,LONG,LONGLONG}, uns 0/1; all cell bytes symbolic.
func VH_C10_Int(typ, uns int) {
	w := map[int]int{TypeTiny: 1, TypeShort: 2, TypeInt24: 3, TypeLong: 4, TypeLongLong: 8}[typ]
	data := vhBytes(vhPre + w + 1)
	out, l, err := CellBytes(data, vhPre, byte(typ), 0, uns == 1)
	vhAssert(err == nil, "no error")
	vhAssert(l == w, "consumed length")
	raw := vhLE(data[vhPre : vhPre+w])
	vhObserveBytes("text", out)
	neg, mag := vhCanonDec(out)
	if uns == 1 {
		vhAssert(!neg && mag == raw, "unsigned value")
		vhCover("unsigned")
		return
	}
	// two's complement of width w
	sign := raw>>(uint(w)*8-1)&1 == 1
	if sign {
		var m uint64
		if w == 8 {
			m = -raw
		} else {
			m = (uint64(1) << (uint(w) * 8)) - raw
		}
		vhAssert(neg && mag == m, "negative value")
		vhCover("negative")
	} else {
		vhAssert(!neg && mag == raw, "non-negative value")
		vhCover("nonneg")
	}
}

// VH_C10_Float: kind 0 = FLOAT, 1 = DOUBLE; finite values.
func VH_C10_Float(kind int) {
	if kind == 0 {
		data := vhBytes(vhPre + 4)
		bits := uint32(vhLE(data[vhPre:]))
		vhAssume(bits&0x7f800000 != 0x7f800000) // finite
		out, l, err := CellBytes(data, vhPre, TypeFloat, 4, false)
		vhAssert(err == nil && l == 4, "float length")
		vhAssert(len(out) > 0, "non-empty")
		vhAssert(bytes.IndexByte(out, 'e') < 0 && bytes.IndexByte(out, 'E') < 0, "exponent-free")
		f, perr := strconv.ParseFloat(string(out), 32)
		vhAssert(perr == nil, "parses")
		vhAssert(math.Float32bits(float32(f)) == bits, "float32 round trip")
		vhCover("float")
		return
	}
	data := vhBytes(vhPre + 8)
	bits := vhLE(data[vhPre:])
	vhAssume(bits&0x7ff0000000000000 != 0x7ff0000000000000)
	out, l, err := CellBytes(data, vhPre, TypeDouble, 8, false)
	vhAssert(err == nil && l == 8, "double length")
	vhAssert(len(out) > 0, "non-empty")
	vhAssert(bytes.IndexByte(out, 'e') < 0 && bytes.IndexByte(out, 'E') < 0, "exponent-free")
	f, perr := strconv.ParseFloat(string(out), 64)
	vhAssert(perr == nil, "parses")
	vhAssert(math.Float64bits(f) == bits, "float64 round trip")
	vhCover("double")
}

func VH_C10_Year() {
	data := vhBytes(vhPre + 1)
	out, l, err := CellBytes(data, vhPre, TypeYear, 0, false)
	vhAssert(err == nil && l == 1, "year length")
	vhAssert(len(out) == 4, "four digits")
	y := data[vhPre]
	vhObserveBytes("text", out)
	if y == 0 {
		vhAssert(out[0] == '0' && out[1] == '0' && out[2] == '0' && out[3] == '0', "zero year is 0000")
		vhCover("zero")
		return
	}
	_, mag := vhCanonDec(out)
	vhAssert(mag == 1900+uint64(y), "year value")
	vhCover("nonzero")
}

// VH_C10_Bit: metadata symbolic over bytes 0..8 x bits 0..7 (BIT(1..64)).
func VH_C10_Bit() {
	nb := int(vhU8())
	nbit := int(vhU8())
	vhAssume(nb <= 8 && nbit <= 7 && nb*8+nbit >= 1 && nb*8+nbit <= 64)
	meta := uint16(nb)<<8 | uint16(nbit)
	data := vhBytes(vhPre + 9)
	want := (nb*8 + nbit + 7) / 8
	cl, cerr := cellLength(data, vhPre, TypeBit, meta)
	out, l, err := CellBytes(data, vhPre, TypeBit, meta, false)
	vhAssert(err == nil && cerr == nil, "no error")
	vhAssert(l == want && cl == want, "bit length")
	vhAssert(len(out) == want, "value length")
	for i := 0; i < len(out); i++ {
		vhAssert(out[i] == data[vhPre+i], "bit bytes verbatim, big-endian as logged")
	}
	vhCover("bit")
}

// VH_C10_Enum: via 0 = TypeEnum, 1 = TypeString with real type ENUM; size 1|2.
func VH_C10_Enum(via, size int) {
	data := vhBytes(vhPre + size + 1)
	var out []byte
	var l int
	var err error
	if via == 0 {
		out, l, err = CellBytes(data, vhPre, TypeEnum, uint16(size), false)
	} else {
		out, l, err = CellBytes(data, vhPre, TypeString, uint16(TypeEnum)<<8|uint16(size), false)
	}
	vhAssert(err == nil && l == size, "enum length")
	neg, mag := vhCanonDec(out)
	vhAssert(!neg && mag == vhLE(data[vhPre:vhPre+size]), "enum index")
	vhCover("enum")
}

// VH_C10_Set: via 0 = TypeSet (raw mask bytes), 1 = TypeString real type SET (decimal mask); size 1..8.
func VH_C10_Set(via, size int) {
	data := vhBytes(vhPre + size + 1)
	if via == 0 {
		out, l, err := CellBytes(data, vhPre, TypeSet, uint16(size), false)
		vhAssert(err == nil && l == size && len(out) == size, "set length")
		for i := 0; i < size; i++ {
			vhAssert(out[i] == data[vhPre+i], "set mask bytes")
		}
		vhCover("set-raw")
		return
	}
	out, l, err := CellBytes(data, vhPre, TypeString, uint16(TypeSet)<<8|uint16(size), false)
	vhAssert(err == nil && l == size, "set length")
	neg, mag := vhCanonDec(out)
	vhAssert(!neg && mag == vhLE(data[vhPre:vhPre+size]), "set bitmask")
	vhCover("set")
}
