//go:build verif

package replication

// C15 (first half): table-map events decode to exactly the logged schema.

func init() {
	vhRegister("VH_C15_TableMap", func(p []int) { VH_C15_TableMap(p[0], p[1], p[2], p[3], p[4]) })
	vhRegister("VH_C15_TableMapWide", func(p []int) { VH_C15_TableMapWide(p[0], p[1]) })
}

// buildTableMap writes a TABLE_MAP event body and returns the event bytes.
func vwTableMap(f BinlogFormat, width int, id uint64, flags uint16, db, tbl []byte, types []byte, metaBytes []byte, nullBits []byte, trailing []byte, crc []byte) []byte {
	w := &vw{}
	w.tableID(id, width)
	w.u16(flags)
	w.u8(byte(len(db)))
	w.raw(db)
	w.u8(0)
	w.u8(byte(len(tbl)))
	w.raw(tbl)
	w.u8(0)
	w.lenenc(uint64(len(types)))
	w.raw(types)
	w.lenenc(uint64(len(metaBytes)))
	w.raw(metaBytes)
	w.raw(nullBits)
	w.raw(trailing)
	return vwEvent(vtTableMap, 0, 1, 0, 0, w.b, crc)
}

func vhCheckTableMap(tm *TableMap, flags uint16, db, tbl []byte, types []byte, wantMeta []uint16, nullBits []byte) {
	vhAssert(tm != nil, "table map decoded")
	vhAssert(tm.Flags == flags, "flags")
	vhAssert(len(tm.Database) == len(db), "database name length")
	for i := 0; i < len(db); i++ {
		vhAssert(tm.Database[i] == db[i], "database name bytes")
	}
	vhAssert(len(tm.Name) == len(tbl), "table name length")
	for i := 0; i < len(tbl); i++ {
		vhAssert(tm.Name[i] == tbl[i], "table name bytes")
	}
	vhAssert(len(tm.Types) == len(types), "column count")
	vhAssert(len(tm.Metadata) == len(types), "metadata count")
	vhAssert(tm.CanBeNull.Count() == len(types), "nullability bitmap size")
	for c := 0; c < len(types); c++ {
		vhAssert(tm.Types[c] == types[c], "column type")
		vhAssert(tm.Metadata[c] == wantMeta[c], "column metadata in the type's byte order")
		vhAssert(tm.CanBeNull.Bit(c) == (nullBits[c/8]&(1<<(uint(c)%8)) != 0), "nullability bit")
	}
}

// VH_C15_TableMap: width 4|6; ncols 1..3 with types chosen from the supported
// list; dbLen/tblLen name lengths; trailing = optional metadata bytes appended.
func VH_C15_TableMap(width, ncols, dbLen, tblLen, trailing int) {
	f := vwFormat(BinlogChecksumAlgOff, width)
	id := vhU64() & 0xffffffffffff
	if width == 4 {
		id &= 0xffffffff
	}
	flags := vhU16()
	db := vhBytes(dbLen)
	tbl := vhBytes(tblLen)
	types := make([]byte, ncols)
	wantMeta := make([]uint16, ncols)
	var metaBytes []byte
	for c := 0; c < ncols; c++ {
		types[c] = vhSupportedTypes[vhChoose(len(vhSupportedTypes))]
		switch vwMetaLen(types[c]) {
		case 1:
			b := vhU8()
			metaBytes = append(metaBytes, b)
			wantMeta[c] = uint16(b)
		case 2:
			b0, b1 := vhU8(), vhU8()
			metaBytes = append(metaBytes, b0, b1)
			if vwMetaBigEndian(types[c]) {
				wantMeta[c] = uint16(b0)<<8 | uint16(b1)
			} else {
				wantMeta[c] = uint16(b0) | uint16(b1)<<8
			}
		}
	}
	nullBits := vhBytes((ncols + 7) / 8)
	tr := vhBytes(trailing)
	ev := NewMysql56BinlogEvent(vwTableMap(f, width, id, flags, db, tbl, types, metaBytes, nullBits, tr, nil))
	vhAssert(ev.IsValid() && ev.IsTableMap(), "valid table map event")
	vhAssert(ev.TableID(f) == id, "table id")
	tm, err := ev.TableMap(f)
	vhAssert(err == nil, "no error")
	vhCheckTableMap(tm, flags, db, tbl, types, wantMeta, nullBits)
	vhCover("tablemap")
}

// VH_C15_TableMapWide: ncols columns (>= 250: multi-byte column count) with a
// concrete type pattern cycling through all supported types, symbolic metadata.
func VH_C15_TableMapWide(width, ncols int) {
	// ncols >= 1000: (ncols-1000) columns that are all VARCHAR (2 metadata bytes each), so that the
	// metadata block itself needs a multi-byte length (>= 251 bytes from 126 columns on)
	allVarchar := ncols >= 1000
	if allVarchar {
		ncols -= 1000
	}
	f := vwFormat(BinlogChecksumAlgOff, width)
	id := vhU64() & 0xffffffff
	flags := vhU16()
	db := vhBytes(2)
	tbl := vhBytes(3)
	types := make([]byte, ncols)
	wantMeta := make([]uint16, ncols)
	var metaBytes []byte
	for c := 0; c < ncols; c++ {
		types[c] = vhSupportedTypes[c%len(vhSupportedTypes)]
		if allVarchar {
			types[c] = TypeVarchar
		}
		switch vwMetaLen(types[c]) {
		case 1:
			b := vhU8()
			metaBytes = append(metaBytes, b)
			wantMeta[c] = uint16(b)
		case 2:
			b0, b1 := vhU8(), vhU8()
			metaBytes = append(metaBytes, b0, b1)
			if vwMetaBigEndian(types[c]) {
				wantMeta[c] = uint16(b0)<<8 | uint16(b1)
			} else {
				wantMeta[c] = uint16(b0) | uint16(b1)<<8
			}
		}
	}
	nullBits := vhBytes((ncols + 7) / 8)
	ev := NewMysql56BinlogEvent(vwTableMap(f, width, id, flags, db, tbl, types, metaBytes, nullBits, nil, nil))
	vhAssert(ev.IsValid() && ev.IsTableMap(), "valid table map event")
	vhAssert(ev.TableID(f) == id, "table id")
	tm, err := ev.TableMap(f)
	vhAssert(err == nil, "no error")
	vhCheckTableMap(tm, flags, db, tbl, types, wantMeta, nullBits)
	vhCover("tablemap-wide")
}
