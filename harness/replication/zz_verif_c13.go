//go:build verif

package replication

// C13: strings and binaries verbatim.  C09 (first half): the per-type length
// rule and the per-type decoder agree.

func init() {
	vhRegister("VH_C13_Str", func(p []int) { VH_C13_Str(p[0], p[1]) })
	vhRegister("VH_C09_LenAgree", func(p []int) { VH_C09_LenAgree(p[0]) })
}

// refStrLayout gives, from the MySQL documentation of the table-map
// metadata, the number of length-prefix bytes of a string-like cell.
// ok=false: metadata outside the type's valid domain.
func refStrLayout(typ byte, meta uint16) (prefix int, ok bool) {
	switch typ {
	case TypeVarchar, TypeVarString:
		if meta > 255 {
			return 2, true
		}
		return 1, true
	case TypeString:
		rt := byte(meta >> 8)
		if rt == TypeEnum || rt == TypeSet {
			return 0, false
		}
		max := (((meta >> 4) & 0x300) ^ 0x300) + (meta & 0xff)
		if max > 255 {
			return 2, true
		}
		return 1, true
	case TypeTinyBlob, TypeMediumBlob, TypeLongBlob, TypeBlob, TypeGeometry:
		switch meta {
		case 1:
			return 1, true
		case 2:
			return 2, true
		case 3:
			return 3, true
		case 4:
			return 4, true
		}
		return 0, false
	}
	return 0, false
}

// VH_C13_Str: typ string-like, buffer of n bytes, metadata / prefix / payload symbolic.
func VH_C13_Str(typ, n int) {
	meta := vhU16()
	prefix, ok := refStrLayout(byte(typ), meta)
	vhAssume(ok)
	data := vhBytes(n)
	vhAssume(vhPre+prefix <= n)
	L := int(vhLE(data[vhPre : vhPre+prefix]))
	vhAssume(vhPre+prefix+L <= n) // the buffer holds the whole cell
	out, l, err := CellBytes(data, vhPre, byte(typ), meta, false)
	vhAssert(err == nil, "no error")
	vhAssert(l == prefix+L, "consumed = prefix + length")
	vhAssert(out != nil, "present (possibly empty) data, never nil")
	vhAssert(len(out) == L, "value has exactly the logged length")
	cl, cerr := cellLength(data, vhPre, byte(typ), meta)
	vhAssert(cerr == nil && cl == l, "cellLength agrees with CellBytes")
	// an arbitrary byte of the value is the logged byte
	i := int(vhU32())
	vhAssume(i < L)
	vhAssert(out[i] == data[vhPre+prefix+i], "value bytes are the logged bytes")
	vhObserve("L", uint64(L))
	if L == 0 {
		vhCover("empty")
	} else {
		vhCover("non-empty")
	}
}

// VH_C09_LenAgree: for every supported type, cellLength and CellBytes agree
// on the size of a cell for the type's whole metadata domain.
func VH_C09_LenAgree(typ int) {
	const n = 48
	meta := vhU16()
	t := byte(typ)
	switch t {
	case TypeTiny, TypeShort, TypeInt24, TypeLong, TypeLongLong, TypeFloat, TypeDouble, TypeYear,
		TypeDate, TypeNewDate, TypeTime, TypeDateTime, TypeTimestamp:
		// metadata ignored
	case TypeTimestamp2, TypeDateTime2, TypeTime2:
		vhAssume(meta <= 6)
	case TypeBit:
		vhAssume(meta>>8 <= 8 && meta&0xff <= 7 && (meta>>8)*8+(meta&0xff) <= 64)
	case TypeEnum:
		vhAssume(meta&0xff >= 1 && meta&0xff <= 2)
	case TypeSet:
		vhAssume(meta&0xff <= 8)
	case TypeNewDecimal:
		p, s := meta>>8, meta&0xff
		vhAssume(p >= 1 && p <= 65 && s <= 30 && s <= p)
	case TypeString:
		rt := byte(meta >> 8)
		if rt == TypeEnum {
			vhAssume(meta&0xff >= 1 && meta&0xff <= 2)
		} else if rt == TypeSet {
			vhAssume(meta&0xff <= 8)
		}
	case TypeJSON:
		vhAssume(meta >= 1 && meta <= 4)
	default:
		_, ok := refStrLayout(t, meta)
		vhAssume(ok)
	}
	data := vhBytes(n)
	if t == TypeJSON {
		// a well-formed one-byte-literal document: only the length rule is the subject here
		for k := 1; k < int(meta); k++ {
			vhAssume(data[vhPre+k] == 0)
		}
		vhAssume(data[vhPre] == 2 && data[vhPre+int(meta)] == 4 && data[vhPre+int(meta)+1] <= 2)
	}
	cl, cerr := cellLength(data, vhPre, t, meta)
	vhAssert(cerr == nil, "cellLength: no error on a valid cell")
	vhAssume(cl >= 0 && vhPre+cl <= n) // the buffer holds the whole cell
	_, l, err := CellBytes(data, vhPre, t, meta, false)
	vhAssert(err == nil, "CellBytes: no error on a valid cell")
	vhAssert(l == cl, "length rule and decoder agree on the size of the cell")
	// neither of them reads beyond the cell: the same answers on a buffer that ends exactly where the
	// cell ends (the last cell of the last row image of an event)
	exact := data[: vhPre+cl : vhPre+cl]
	cl2, cerr2 := cellLength(exact, vhPre, t, meta)
	vhAssert(cerr2 == nil && cl2 == cl, "cellLength needs no byte beyond the cell")
	_, l2, err2 := CellBytes(exact, vhPre, t, meta, false)
	vhAssert(err2 == nil && l2 == cl, "CellBytes needs no byte beyond the cell")
	vhCover("agree")
}
