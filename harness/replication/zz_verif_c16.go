//go:build verif

package replication

// C16: event headers and control events decode exactly, checksum or not.

func init() {
	vhRegister("VH_C16_Format", func(p []int) { VH_C16_Format(p[0], p[1]) })
	vhRegister("VH_C16_Rotate", func(p []int) { VH_C16_Rotate(p[0], p[1], p[2]) })
	vhRegister("VH_C16_Query", func(p []int) { VH_C16_Query(p[0], p[1], p[2], p[3]) })
	vhRegister("VH_C16_IntVarRand", func(p []int) { VH_C16_IntVarRand(p[0], p[1]) })
}

// vhChecksum picks the checksum configuration: cs 0 = off, 1 = CRC32 (4
// arbitrary trailing bytes; the library does not verify them), 2 = undefined.
func vhChecksum(cs int) (alg byte, crc []byte) {
	switch cs {
	case 1:
		return BinlogChecksumAlgCRC32, vhBytes(4)
	case 2:
		return BinlogChecksumAlgUndef, nil
	}
	return BinlogChecksumAlgOff, nil
}

func vhNewEvent(flavor int, buf []byte) BinlogEvent {
	if flavor == 1 {
		return NewMariadbBinlogEvent(buf)
	}
	return NewMysql56BinlogEvent(buf)
}

// vhStrip applies the announced algorithm and checks the stripped checksum bytes.
func vhStrip(ev BinlogEvent, f BinlogFormat, crc []byte) BinlogEvent {
	vhAssert(ev.IsValid(), "event is valid")
	st, sum, err := ev.StripChecksum(f)
	vhAssert(err == nil, "strip: no error")
	if crc == nil {
		vhAssert(sum == nil, "no checksum reported when none is present")
	} else {
		vhAssert(len(sum) == 4, "4 checksum bytes")
		for i := 0; i < 4; i++ {
			vhAssert(sum[i] == crc[i], "checksum bytes")
		}
	}
	return st
}

func vhEqBytes(got string, want []byte, msg string) {
	vhAssert(len(got) == len(want), msg+": length")
	for i := 0; i < len(want); i++ {
		vhAssert(got[i] == want[i], msg)
	}
}

// VH_C16_Format: server version of verLen bytes, ntab post-header lengths.
func VH_C16_Format(verLen, ntab int) {
	version := vhU16()
	ver := vhBytes(verLen)
	for i := range ver {
		vhAssume(ver[i] != 0)
	}
	createTS := vhU32()
	hlen := vhU8()
	tab := vhBytes(ntab)
	alg := vhU8()
	sum := vhBytes(4)
	w := &vw{}
	w.u16(version)
	w.raw(ver)
	for i := verLen; i < 50; i++ {
		w.u8(0)
	}
	w.u32(createTS)
	w.u8(hlen)
	w.raw(tab)
	w.u8(alg)
	w.raw(sum)
	ts, sid, np, fl := vhU32(), vhU32(), vhU32(), vhU16()
	ev := NewMysql56BinlogEvent(vwEvent(vtFormatDesc, ts, sid, np, fl, w.b, nil))
	vhAssert(ev.IsValid() && ev.IsFormatDescription(), "valid format description event")
	vhAssert(ev.Timestamp() == ts && ev.NextPosition() == int64(np), "header fields")
	f, err := ev.Format()
	if version != 4 {
		vhAssert(err != nil, "only format version 4 is accepted")
		vhCover("bad-version")
		return
	}
	if hlen < 19 {
		vhAssert(err != nil, "header length below 19 is rejected")
		vhCover("bad-header-length")
		return
	}
	vhAssert(err == nil, "no error")
	vhAssert(f.FormatVersion == 4, "format version")
	vhEqBytes(f.ServerVersion, ver, "server version")
	vhAssert(f.HeaderLength == hlen, "header length")
	vhAssert(f.ChecksumAlgorithm == alg, "checksum algorithm")
	vhAssert(len(f.HeaderSizes) == ntab, "header size table length")
	for i := 0; i < ntab; i++ {
		vhAssert(f.HeaderSizes[i] == tab[i], "per-event header size")
		vhAssert(f.HeaderSize(byte(i+1)) == tab[i], "HeaderSize(type)")
	}
	vhAssert(!f.IsZero(), "format is initialised")
	vhCover("format")
}

// VH_C16_Rotate: name of nameLen bytes; cs checksum configuration; flavor 0 mysql56 / 1 mariadb.
func VH_C16_Rotate(nameLen, cs, flavor int) {
	alg, crc := vhChecksum(cs)
	f := vwFormat(alg, 6)
	pos := vhU64()
	name := vhBytes(nameLen)
	w := &vw{}
	w.u64(pos)
	w.raw(name)
	ev := vhNewEvent(flavor, vwEvent(vtRotate, vhU32(), vhU32(), vhU32(), vhU16(), w.b, crc))
	vhAssert(ev.IsRotate(), "is rotate")
	st := vhStrip(ev, f, crc)
	vhAssert(st.IsValid() || crc != nil, "stripped event")
	gotName, gotPos, err := st.Rotate(f)
	vhAssert(err == nil, "no error")
	vhAssert(gotPos == int64(pos), "rotate position")
	vhEqBytes(gotName, name, "rotate file name")
	vhCover("rotate")
}

// VH_C16_Query: dbLen, sqlLen lengths; cs checksum configuration; flavor.
func VH_C16_Query(dbLen, sqlLen, cs, flavor int) {
	alg, crc := vhChecksum(cs)
	f := vwFormat(alg, 6)
	// status variables in the order MySQL writes them
	vars := &vw{}
	if vhChoose(2) == 1 { // Q_FLAGS2_CODE
		vars.u8(0)
		vars.raw(vhBytes(4))
	}
	if vhChoose(2) == 1 { // Q_SQL_MODE_CODE
		vars.u8(1)
		vars.raw(vhBytes(8))
	}
	switch vhChoose(4) {
	case 1: // Q_CATALOG_NZ_CODE, empty
		vars.u8(6)
		vars.u8(0)
	case 2: // Q_CATALOG_NZ_CODE "std"
		vars.u8(6)
		vars.u8(3)
		vars.raw(vhBytes(3))
	case 3: // Q_CATALOG_CODE (5.0.0-5.0.3): length, bytes, NUL
		vars.u8(2)
		vars.u8(3)
		vars.raw(vhBytes(3))
		vars.u8(0)
	}
	if vhChoose(2) == 1 { // Q_AUTO_INCREMENT
		vars.u8(3)
		vars.raw(vhBytes(4))
	}
	hasCharset := vhChoose(2) == 1
	var cs3 []byte
	if hasCharset { // Q_CHARSET_CODE
		vars.u8(4)
		cs3 = vhBytes(6)
		vars.raw(cs3)
	}
	if vhChoose(2) == 1 { // Q_TIME_ZONE_CODE
		vars.u8(5)
		vars.u8(3)
		vars.raw(vhBytes(3))
	}
	switch vhChoose(3) { // one of the later variables, arbitrary payload
	case 1:
		vars.u8(7) // Q_LC_TIME_NAMES_CODE
		vars.raw(vhBytes(2))
	case 2:
		code := vhU8()
		vhAssume(code >= 8 && code <= 20)
		vars.u8(code)
		vars.raw(vhBytes(3))
	}
	db := vhBytes(dbLen)
	sql := vhBytes(sqlLen)
	w := &vw{}
	w.u32(vhU32()) // thread id
	w.u32(vhU32()) // exec time
	w.u8(byte(dbLen))
	w.u16(vhU16()) // error code
	w.u16(uint16(len(vars.b)))
	w.raw(vars.b)
	w.raw(db)
	w.u8(0)
	w.raw(sql)
	ev := vhNewEvent(flavor, vwEvent(vtQuery, vhU32(), vhU32(), vhU32(), vhU16(), w.b, crc))
	vhAssert(ev.IsQuery(), "is query")
	st := vhStrip(ev, f, crc)
	q, err := st.Query(f)
	vhAssert(err == nil, "no error")
	vhEqBytes(q.Database, db, "database name")
	vhEqBytes(q.SQL, sql, "SQL text")
	if hasCharset {
		vhAssert(q.Charset != nil, "charset present")
		vhAssert(q.Charset.Client == int32(uint16(cs3[0])|uint16(cs3[1])<<8), "charset client")
		vhAssert(q.Charset.Conn == int32(uint16(cs3[2])|uint16(cs3[3])<<8), "charset connection collation")
		vhAssert(q.Charset.Server == int32(uint16(cs3[4])|uint16(cs3[5])<<8), "charset server collation")
		vhCover("charset")
	} else {
		vhAssert(q.Charset == nil, "no charset when Q_CHARSET_CODE is absent")
		vhCover("no-charset")
	}
}

// VH_C16_IntVarRand: kind 0 = INTVAR, 1 = RAND.
func VH_C16_IntVarRand(kind, cs int) {
	alg, crc := vhChecksum(cs)
	f := vwFormat(alg, 6)
	if kind == 0 {
		id := vhU8()
		val := vhU64()
		w := &vw{}
		w.u8(id)
		w.u64(val)
		ev := NewMysql56BinlogEvent(vwEvent(vtIntVar, vhU32(), vhU32(), vhU32(), vhU16(), w.b, crc))
		vhAssert(ev.IsIntVar(), "is intvar")
		st := vhStrip(ev, f, crc)
		gid, gval, err := st.IntVar(f)
		if id == IntVarLastInsertID || id == IntVarInsertID {
			vhAssert(err == nil && gid == id && gval == val, "intvar id and value")
			vhCover("intvar")
		} else {
			vhAssert(err != nil, "unknown intvar id rejected")
			vhCover("intvar-bad-id")
		}
		return
	}
	s1, s2 := vhU64(), vhU64()
	w := &vw{}
	w.u64(s1)
	w.u64(s2)
	ev := NewMysql56BinlogEvent(vwEvent(vtRand, vhU32(), vhU32(), vhU32(), vhU16(), w.b, crc))
	vhAssert(ev.IsRand(), "is rand")
	st := vhStrip(ev, f, crc)
	g1, g2, err := st.Rand(f)
	vhAssert(err == nil && g1 == s1 && g2 == s2, "rand seeds")
	vhCover("rand")
}
