//go:build verif

package gobinlog

import (
	"context"
	"fmt"
	"strconv"

	"github.com/Breeze0806/gobinlog/replication"
)

// C01: end-to-end fidelity.  A history AST is serialised by the independent
// writer into dump packets; the real readBinlogEvent turns each packet into an
// event, the real parseEvents consumes them, and the delivered transactions
// are compared with the AST.

func init() {
	vhRegister("VH_C01_History", func(p []int) { VH_C01_History(p[0], p[1]) })
}

type c1Col struct {
	name     string
	typ      byte
	meta     uint16
	unsigned bool
}

type c1Cell struct {
	absent, null bool
	want         []byte // expected value text
}

type c1Row struct{ before, after []c1Cell }

type c1Change struct {
	kind  int    // kWrite / kUpdate / kDelete, or kQuery for a statement logged as SQL text
	sql   string // kQuery only
	table int
	ts    uint32
	rows  []c1Row
}

type c1Tx struct {
	changes   []c1Change
	commitTS  uint32
	now, next int64
	file      string // binlog file of both labels ("" = the first file)
}

var c1Tables = [][]c1Col{
	{{"id", replication.TypeTiny, 0, true}, {"msg", replication.TypeVarchar, 40, false}},
	{{"big", replication.TypeVarchar, 300, false}, {"blob", replication.TypeBlob, 2, false}, {"bits", replication.TypeBit, 1 << 8, false}},
	{{"s", replication.TypeString, uint16(replication.TypeString)<<8 | 8, false}, {"when", replication.TypeDateTime2, 0, false}},
	{{"a", replication.TypeVarchar, 40, false}, {"b", replication.TypeVarchar, 300, false}},
	{{"c", replication.TypeBlob, 2, false}, {"d", replication.TypeVarchar, 20, false}},
	// wide table (axis 2): more than 8 columns (multi-byte bitmaps, partial images whose NULL bitmap is
	// shorter than the presence bitmap) and a VARCHAR whose maximum length is exactly 255
	// (BIT(8) cells are raw bytes: no digit-count forks, so ten columns stay cheap)
	{{"id", replication.TypeTiny, 0, true}, {"w1", replication.TypeBit, 1 << 8, false}, {"w2", replication.TypeBit, 1 << 8, false},
		{"w3", replication.TypeBit, 1 << 8, false}, {"w4", replication.TypeBit, 1 << 8, false}, {"w5", replication.TypeBit, 1 << 8, false},
		{"w6", replication.TypeBit, 1 << 8, false}, {"w7", replication.TypeBit, 1 << 8, false}, {"w8", replication.TypeBit, 1 << 8, false},
		{"name", replication.TypeVarchar, 255, false}},
}

// c1WidePres: presence patterns of the wide table (bit c = column c present).
var c1WidePres = []int{0x001, 0x0ff, 0x3ff, 0x201, 0x3fe, 0x300}

// c1Bits writes an n-bit bitmap, (n+7)/8 bytes, little-endian.
func c1Bits(w *replication.VHWriter, v, n int) {
	for i := 0; i < (n+7)/8; i++ {
		w.U8(byte(v >> uint(8*i)))
	}
}

var c1FreeLen = false

// c1StrLen > 0: VARCHAR / CHAR payloads have exactly this length (axis 4: the rows event is longer than
// the table map that follows it, so a recycled rows-event buffer would be refilled)
var c1StrLen = 0

// c1WriteCell appends the encoding of one present, non-NULL cell and returns the expected text.
func c1WriteCell(w *replication.VHWriter, c c1Col) []byte {
	switch c.typ {
	case replication.TypeTiny:
		b := vhU8()
		w.U8(b)
		if c.unsigned {
			return strconv.AppendUint(nil, uint64(b), 10)
		}
		return strconv.AppendInt(nil, int64(int8(b)), 10)
	case replication.TypeVarchar, replication.TypeString:
		n := 1
		if c1FreeLen {
			n = vhChoose(3)
		}
		if c1StrLen > 0 {
			n = c1StrLen
		}
		p := vhBytes(n)
		max := int(c.meta)
		if c.typ == replication.TypeString {
			max = int(c.meta & 0xff)
		}
		if max > 255 {
			w.U16(uint16(n))
		} else {
			w.U8(byte(n))
		}
		w.Raw(p)
		return p
	case replication.TypeBlob:
		n := 2
		if c1FreeLen {
			n = vhChoose(2) * 2
		}
		p := vhBytes(n)
		w.U16(uint16(n))
		w.Raw(p)
		return p
	case replication.TypeBit:
		p := vhBytes(1)
		w.Raw(p)
		return p
	case replication.TypeDateTime2:
		// a valid packed DATETIME(0): sign bit set, fields in range
		p := vhBytes(5)
		w.Raw(p)
		packed := uint64(p[0])<<32 | uint64(p[1])<<24 | uint64(p[2])<<16 | uint64(p[3])<<8 | uint64(p[4])
		vhAssume(packed&0x8000000000 != 0)
		ip := packed - 0x8000000000
		ymd, hms := ip>>17, ip%(1<<17)
		ym := ymd >> 5
		vhAssume(ym/13 <= 9999 && hms>>12 <= 23 && (hms>>6)%64 <= 59 && hms%64 <= 59)
		var t []byte
		t = c1Pad(t, ym/13, 4)
		t = append(t, '-')
		t = c1Pad(t, ym%13, 2)
		t = append(t, '-')
		t = c1Pad(t, ymd%32, 2)
		t = append(t, ' ')
		t = c1Pad(t, hms>>12, 2)
		t = append(t, ':')
		t = c1Pad(t, (hms>>6)%64, 2)
		t = append(t, ':')
		return c1Pad(t, hms%64, 2)
	}
	return nil
}

func c1Pad(dst []byte, v uint64, w int) []byte {
	if w == 4 {
		return append(dst, fmt.Sprintf("%04d", v)...)
	}
	return append(dst, fmt.Sprintf("%02d", v)...)
}

// c1Image writes one row image (NULL bitmap + cells) for the presence bits.
func c1Image(w *replication.VHWriter, cols []c1Col, pres int, free bool) []c1Cell {
	np := 0
	for c := range cols {
		if pres&(1<<uint(c)) != 0 {
			np++
		}
	}
	nulls := 0
	if free {
		// none, all, alternating
		nulls = []int{0, (1 << uint(np)) - 1, 0x155 & ((1 << uint(np)) - 1)}[vhChoose(3)]
	}
	c1Bits(w, nulls, np)
	cells := make([]c1Cell, len(cols))
	k := 0
	for c := range cols {
		if pres&(1<<uint(c)) == 0 {
			cells[c].absent = true
			continue
		}
		if nulls&(1<<uint(k)) != 0 {
			cells[c].null = true
		} else {
			cells[c].want = c1WriteCell(w, cols[c])
		}
		k++
	}
	return cells
}

// VH_C01_History: cfg bit0 CRC32, bit1 rows v2, bit2 6-byte table ids, bit3 GTID events;
// axis 0: cell axis (one change, free column tuple / presence / NULL pattern),
// axis 1: structure axis (1-2 transactions x 1-2 statements x 2 tables x 1-2 rows events),
// axis 3: the cell axis driven through Streamer.Stream and the scripted master (library-priority schedule),
// axis 4: two autocommitted row changes around three DDL statements through Streamer.Stream; the handler keeps
//         every transaction and reads all of them again after the stream has ended (C08),
// axis 2: wide axis (one change on the 10-column table, partial images from c1WidePres, NULL patterns).
func VH_C01_History(cfg, axis int) {
	crcOn, v2, w6, gtid := cfg&1 != 0, cfg&2 != 0, cfg&4 != 0, cfg&8 != 0
	c1FreeLen = axis == 0 || axis == 2 || axis == 3
	c1StrLen = 0
	if axis == 4 {
		c1StrLen = 14
	}
	width := 4
	if w6 {
		width = 6
	}
	alg := byte(replication.BinlogChecksumAlgOff)
	if crcOn {
		alg = replication.BinlogChecksumAlgCRC32
	}
	base := vhU32()
	vhAssume(base >= 4 && base < 1<<30)
	serverID := vhU32()
	off := int64(base)
	var packets [][]byte
	emit := func(typ byte, ts uint32, body []byte, real bool) uint32 {
		var crc []byte
		if crcOn || typ == 15 { // the FDE always carries its own checksum field in the body
			if crcOn && typ != 15 {
				crc = vhBytes(4)
			}
		}
		n := 19 + len(body) + len(crc)
		next := uint32(0)
		if real {
			off += int64(n)
			next = uint32(off)
		}
		packets = append(packets, append([]byte{0}, replication.VHEvent(typ, ts, serverID, next, 0, body, crc)...))
		return next
	}
	// stream head: fake ROTATE, FORMAT_DESCRIPTION
	rot := &replication.VHWriter{}
	rot.U64(uint64(base))
	rot.Str("bin.000007")
	emit(4, 0, rot.Bytes(), false)
	emit(15, vhU32(), replication.VHFormatBody(alg, width), false)
	if gtid {
		pg := &replication.VHWriter{}
		pg.U64(0)
		emit(35, vhU32(), pg.Bytes(), true)
	}
	rowsType := func(kind int) byte {
		t := map[int]byte{kWrite: 23, kUpdate: 24, kDelete: 25}[kind]
		if v2 {
			t += 7
		}
		return t
	}
	query := func(sql string, ts uint32) uint32 {
		q := &replication.VHWriter{}
		q.U32(1)
		q.U32(0)
		q.U8(2)
		q.U16(0)
		q.U16(0)
		q.Str("db")
		q.U8(0)
		q.Str(sql)
		return emit(2, ts, q.Bytes(), true)
	}
	var txs []c1Tx
	ntx := 1
	if axis == 1 {
		ntx = 1 + vhChoose(2)
	}
	if axis == 4 {
		ntx = 2 // two autocommitted row changes with three DDL statements between them
	}
	boundary := int64(base) // start label: the initial position, then the previous end label
	for t := 0; t < ntx; t++ {
		tx := c1Tx{now: boundary}
		if gtid {
			g := &replication.VHWriter{}
			g.U8(0)
			g.Raw(vhBytes(16))
			g.U64(uint64(t + 1))
			emit(33, vhU32(), g.Bytes(), true)
		}
		txKind := kWrite
		if axis != 4 {
			query("BEGIN", vhU32())
			txKind = []int{kWrite, kUpdate, kDelete}[vhChoose(3)]
		}
		autoNext := uint32(0)
		autoTS := uint32(0)
		nst := 1
		if axis == 1 {
			nst = 1 + vhChoose(2)
		}
		for st := 0; st < nst; st++ {
			ti := 0
			switch axis {
			case 4:
				ti = 0
			case 0, 3:
				ti = vhChoose(3)
			case 2:
				ti = 5
			default:
				ti = 3 + vhChoose(2)
			}
			cols := c1Tables[ti]
			tableID := uint64(100 + ti)
			// TABLE_MAP
			tm := &replication.VHWriter{}
			tm.TableID(tableID, width)
			tm.U16(1)
			tm.U8(2)
			tm.Str("db")
			tm.U8(0)
			tm.U8(2)
			tm.Str("t" + string(rune('0'+ti)))
			tm.U8(0)
			tm.LenEnc(uint64(len(cols)))
			meta := &replication.VHWriter{}
			for _, c := range cols {
				tm.U8(c.typ)
				switch c.typ {
				case replication.TypeVarchar, replication.TypeBit:
					meta.U16(c.meta)
				case replication.TypeString:
					meta.U8(byte(c.meta >> 8))
					meta.U8(byte(c.meta))
				case replication.TypeBlob, replication.TypeDateTime2:
					meta.U8(byte(c.meta))
				}
			}
			tm.LenEnc(uint64(len(meta.Bytes())))
			tm.Raw(meta.Bytes())
			for i := 0; i < (len(cols)+7)/8; i++ {
				tm.U8(0xff) // nullability
			}
			emit(19, vhU32(), tm.Bytes(), true)
			nev := 1
			if axis == 1 {
				nev = 1 + vhChoose(2)
			}
			for e := 0; e < nev; e++ {
				kind := txKind
				ch := c1Change{kind: kind, table: ti, ts: vhU32()}
				r := &replication.VHWriter{}
				r.TableID(tableID, width)
				r.U16(0)
				if v2 && axis == 2 {
					// extra row info (partition ids since 8.0.16, NDB): the length field counts itself
					r.U16(2 + 3)
					r.Raw(vhBytes(3))
				} else if v2 {
					r.U16(2)
				}
				r.LenEnc(uint64(len(cols)))
				all := (1 << uint(len(cols))) - 1
				presI, presD := all, all
				freeI, freeD := false, false
				if axis == 0 || axis == 3 {
					// every non-empty presence pattern
					if kind != kWrite {
						presI = 1 + vhChoose(all)
						freeI = true
					}
					if kind != kDelete {
						presD = 1 + vhChoose(all)
						freeD = kind == kWrite
					}
				}
				if axis == 2 {
					if kind != kWrite {
						presI = c1WidePres[vhChoose(len(c1WidePres))]
						freeI = true
					}
					if kind != kDelete {
						presD = c1WidePres[vhChoose(len(c1WidePres))]
						freeD = kind == kWrite
					}
				}
				if kind != kWrite {
					c1Bits(r, presI, len(cols))
				}
				if kind != kDelete {
					c1Bits(r, presD, len(cols))
				}
				nrows := 1
				if axis == 1 {
					nrows = 1 + e // the second rows event of a statement carries two rows
				} else if kind == kDelete && axis != 3 {
					nrows = 1 + vhChoose(2)
				}
				for i := 0; i < nrows; i++ {
					var row c1Row
					if kind != kWrite {
						row.before = c1Image(r, cols, presI, freeI)
					}
					if kind != kDelete {
						row.after = c1Image(r, cols, presD, freeD)
					}
					ch.rows = append(ch.rows, row)
				}
				autoNext = emit(rowsType(kind), ch.ts, r.Bytes(), true)
				autoTS = ch.ts
				tx.changes = append(tx.changes, ch)
			}
		}
		if axis == 4 {
			// an autocommitted row change: the rows event itself is the commit point
			tx.commitTS, tx.next = autoTS, int64(autoNext)
			boundary = tx.next
			txs = append(txs, tx)
			if t == 1 {
				// (the second row change follows the first at once: a reader that recycles event buffers
				// gets the chance to refill the first one; then statements of different lengths)
				for d := 0; d < 3; d++ {
					ddl := c1Tx{now: boundary, commitTS: vhU32()}
					sql := []string{"create table y0 (a int, b varchar(20))", "create table y (a int)", "create table y2 (a int)"}[d]
					ddl.next = int64(query(sql, ddl.commitTS))
					ddl.changes = []c1Change{{kind: kQuery, sql: sql, ts: ddl.commitTS}}
					boundary = ddl.next
					txs = append(txs, ddl)
				}
			}
			continue
		}
		tx.commitTS = vhU32()
		tail := 0
		if axis == 2 {
			// 0: XID; 1: COMMIT query, then a DDL; 2: XID, then a DDL;
			// 3: XID, then the log rotates inside the dump (second FORMAT_DESCRIPTION) and a DDL follows in the new file;
			// 4: as 3, and the new file announces the OTHER checksum algorithm (binlog_checksum was switched)
			tail = vhChoose(5)
		}
		if tail == 1 {
			// closed by a COMMIT query event (non-transactional engines) instead of XID
			tx.next = int64(query("COMMIT", tx.commitTS))
		} else {
			x := &replication.VHWriter{}
			x.U64(uint64(t))
			tx.next = int64(emit(16, tx.commitTS, x.Bytes(), true))
		}
		boundary = tx.next
		txs = append(txs, tx)
		ddlFile := ""
		if tail == 3 || tail == 4 {
			rb := &replication.VHWriter{}
			rb.U64(4)
			rb.Str("bin.000008")
			emit(4, vhU32(), rb.Bytes(), true)  // the real ROTATE event at the end of the old file
			emit(4, 0, rb.Bytes(), false)       // the new file's head as a master serves it: fake ROTATE ...
			off = 4
			if tail == 4 {
				crcOn = !crcOn
				alg = byte(replication.BinlogChecksumAlgOff)
				if crcOn {
					alg = replication.BinlogChecksumAlgCRC32
				}
			}
			emit(15, vhU32(), replication.VHFormatBody(alg, width), true) // ... and its FORMAT_DESCRIPTION
			boundary = 4 // the target of the rotation
			ddlFile = "bin.000008"
		}
		if tail != 0 {
			// a statement logged outside BEGIN..COMMIT is a transaction of its own
			ddl := c1Tx{now: boundary, commitTS: vhU32(), file: ddlFile}
			// the statement kinds the library passes on as changes of their own, one per ending
			sql := []string{"", "create table x0 (a int)", "rename table x0 to x1", "alter table x1 add b int", "drop table x1"}[tail%5]
			if t > 0 {
				sql += " /* " + string(rune('0'+t)) + " */"
			}
			ddl.next = int64(query(sql, ddl.commitTS))
			ddl.changes = []c1Change{{kind: kQuery, sql: sql, ts: ddl.commitTS}}
			boundary = ddl.next
			txs = append(txs, ddl)
		}
	}

	// ---- run the real code ----
	m := &c1Mapper{}
	k := 0
	var kept []*Transaction
	var check func(t *Transaction, want c1Tx)
	handler := func(t *Transaction) error {
		vhAssert(k < len(txs), "nothing but the committed transactions is delivered")
		want := txs[k]
		k++
		check(t, want)
		if axis == 4 {
			kept = append(kept, t) // the handler keeps what it was given and reads it again after the stream
		}
		return nil
	}
	check = func(t *Transaction, want c1Tx) {
		wf := "bin.000007"
		if want.file != "" {
			wf = want.file
		}
		vhAssert(t.NowPosition.Filename == wf && t.NowPosition.Offset == want.now, "start label")
		vhAssert(t.NextPosition.Filename == wf && t.NextPosition.Offset == want.next, "end label")
		vhAssert(t.Timestamp == int64(want.commitTS), "commit timestamp")
		vhAssert(len(t.Events) == len(want.changes), "ordered changes of the transaction")
		for i, wc := range want.changes {
			ev := t.Events[i]
			if wc.kind == kQuery {
				wantType := map[byte]StatementType{'c': StatementCreate, 'r': StatementRename, 'a': StatementAlter, 'd': StatementDrop}[wc.sql[0]]
				vhAssert(ev.Type == wantType, "change kind")
				vhAssert(ev.Query.SQL == wc.sql, "SQL text")
				vhAssert(ev.Timestamp == int64(wc.ts), "event timestamp")
				continue
			}
			wt := map[int]StatementType{kWrite: StatementInsert, kUpdate: StatementUpdate, kDelete: StatementDelete}[wc.kind]
			vhAssert(ev.Type == wt, "change kind")
			vhAssert(ev.Table.DbName == "db" && ev.Table.TableName == "t"+string(rune('0'+wc.table)), "table")
			vhAssert(ev.Timestamp == int64(wc.ts), "event timestamp")
			nb, na := 0, 0
			if wc.kind != kWrite {
				nb = len(wc.rows)
			}
			if wc.kind != kDelete {
				na = len(wc.rows)
			}
			vhAssert(len(ev.RowIdentifies) == nb && len(ev.RowValues) == na, "row images")
			for r, wr := range wc.rows {
				if nb > 0 {
					c1CheckImage(ev.RowIdentifies[r], wr.before, c1Tables[wc.table])
				}
				if na > 0 {
					c1CheckImage(ev.RowValues[r], wr.after, c1Tables[wc.table])
				}
			}
		}
	}
	if axis == 3 || axis == 4 {
		// through the public API: Streamer.Stream, newSlaveConnection, the reader goroutine, the
		// (model / natively: real) driver and a master that serves the packets and then ends the dump
		sc := &vScript{end: endEOF}
		for _, p := range packets {
			sc.packets = append(sc.packets, p[1:])
		}
		env := vhStartEnv(sc)
		defer env.stop()
		s, _ := NewStreamer(env.dsn(), serverID, m)
		s.SetBinlogPosition(Position{Filename: "bin.000007", Offset: int64(base)})
		err := s.Stream(newVCtx(), handler)
		vhAssert(err == nil, "well-formed binlog streams without error")
		vhAssert(s.Error() == nil, "the master's EOF is a clean end")
		vhAssert(k == len(txs), "exactly one transaction per committed transaction")
		vhAssert(s.binlogPosition().Offset == boundary, "the stored position is the end label of the last transaction")
		vhQuiesce()
		for i, t := range kept {
			// read again after all the later stream activity: nothing may have changed
			check(t, txs[i])
		}
		vhCover("history-stream")
		return
	}
	// readBinlogEvent per packet, then parseEvents
	conn := &c1Conn{packets: packets}
	sl := &slaveConnection{dc: conn}
	ch := make(chan replication.BinlogEvent, len(packets))
	for range packets {
		ev, err := sl.readBinlogEvent()
		vhAssert(err == nil, "packet becomes an event")
		ch <- ev
	}
	close(ch)
	s := &Streamer{tableMapper: m}
	s.SetBinlogPosition(Position{Filename: "bin.000007", Offset: int64(base)})
	s.sendTransaction = handler
	_, err := s.parseEvents(context.Background(), ch)
	vhAssert(err == nil, "well-formed binlog parses")
	vhAssert(k == len(txs), "exactly one transaction per committed transaction")
	vhCover("history")
}

func c1CheckImage(got *RowData, want []c1Cell, cols []c1Col) {
	vhAssert(got != nil && len(got.Columns) == len(cols), "one entry per column")
	for c, wc := range want {
		g := got.Columns[c]
		vhAssert(g.Filed == cols[c].name, "column name")
		vhAssert(g.Type == ColumnType(cols[c].typ), "column binlog type")
		switch {
		case wc.absent:
			vhAssert(g.IsEmpty && g.Data == nil, "absent column marker")
		case wc.null:
			vhAssert(!g.IsEmpty && g.Data == nil, "NULL marker")
		default:
			vhAssert(!g.IsEmpty && g.Data != nil, "value present")
			vhAssert(len(g.Data) == len(wc.want), "value text length")
			for i := range wc.want {
				vhAssert(g.Data[i] == wc.want[i], "value text")
			}
		}
	}
}

type c1Conn struct {
	packets [][]byte
	k       int
}

func (c *c1Conn) Close() error                                    { return nil }
func (c *c1Conn) Exec(string) error                               { return nil }
func (c *c1Conn) NoticeDump(uint32, uint32, string, uint16) error { return nil }
func (c *c1Conn) HandleErrorPacket([]byte) error                  { return errHandler }
func (c *c1Conn) ReadPacket() ([]byte, error) {
	p := c.packets[c.k]
	c.k++
	return p, nil
}

type c1Mapper struct{}

func (m *c1Mapper) MysqlTable(name MysqlTableName) (MysqlTable, error) {
	ti := int(name.TableName[1] - '0')
	t := &vTable{name: name}
	for _, c := range c1Tables[ti] {
		t.cols = append(t.cols, &vColumn{name: c.name, unsigned: c.unsigned})
	}
	return t, nil
}
