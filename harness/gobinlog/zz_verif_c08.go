//go:build verif

package gobinlog

import (
	"github.com/Breeze0806/gobinlog/replication"
)

// C08: delivered data is stable and private (no aliasing of transport buffers
// or shared storage).  Behavioural formulations: overwrite, then observe.

func init() {
	vhRegister("VH_C08_Transport", func(p []int) { VH_C08_Transport(p[0], p[1]) })
	vhRegister("VH_C08_TransportBig", func(p []int) { VH_C08_TransportBig(p[0]) })
	vhRegister("VH_C08_Scribble", func(p []int) { VH_C08_Scribble(p[0], p[1]) })
	vhRegister("VH_C08_Row", func(p []int) { VH_C08_Row(p[0]) })
	vhRegister("VH_C13_Marks", func(p []int) { VH_C13_Marks(p[0]) })
	vhRegister("VH_C08_Update", func(p []int) { VH_C08_Update(p[0]) })
	vhRegister("VH_C08_Absent", func(p []int) { VH_C08_Absent() })
}

// vReuseConn hands out windows of ONE reusable receive buffer, as the driver does.
type vReuseConn struct {
	buf   []byte
	sizes []int
	k     int
}

func (c *vReuseConn) Close() error                                    { return nil }
func (c *vReuseConn) Exec(string) error                               { return nil }
func (c *vReuseConn) NoticeDump(uint32, uint32, string, uint16) error { return nil }
func (c *vReuseConn) HandleErrorPacket([]byte) error                  { return errHandler }
func (c *vReuseConn) ReadPacket() ([]byte, error) {
	n := c.sizes[c.k]
	c.k++
	fresh := vhBytes(n)
	copy(c.buf, fresh) // the next packet overwrites the receive buffer
	c.buf[0] = 0       // OK packet marker
	return c.buf[:n], nil
}

// VH_C08_Transport: two packets of n1 and n2 bytes through one reused buffer.
func VH_C08_Transport(n1, n2 int) {
	max := n1
	if n2 > max {
		max = n2
	}
	conn := &vReuseConn{buf: make([]byte, max), sizes: []int{n1, n2}}
	s := &slaveConnection{dc: conn}
	ev1, err := s.readBinlogEvent()
	vhAssert(err == nil && ev1 != nil, "first event read")
	b1 := ev1.Bytes()
	vhAssert(len(b1) == n1-1, "event holds the packet payload")
	snap := make([]byte, len(b1))
	copy(snap, b1)
	for i := range b1 {
		vhAssert(b1[i] == conn.buf[1+i], "event bytes are the packet bytes")
	}
	ev2, err2 := s.readBinlogEvent()
	vhAssert(err2 == nil && ev2 != nil, "second event read")
	for i := range snap {
		vhAssert(ev1.Bytes()[i] == snap[i], "an event does not change when the transport reuses its receive buffer")
	}
	// and writing through the first event does not reach the transport or the second event
	b2 := ev2.Bytes()
	snap2 := make([]byte, len(b2))
	copy(snap2, b2)
	for i := range b1 {
		b1[i] = vhU8()
	}
	for i := range snap2 {
		vhAssert(ev2.Bytes()[i] == snap2[i], "events are private: overwriting one does not change another")
	}
	vhAssert(!vhSameBacking(b1, conn.buf) && !vhSameBacking(b2, conn.buf), "events do not alias the receive buffer")
	vhCover("transport")
}

// VH_C08_TransportBig: one packet of n bytes (sizes around the driver's buffer limits),
// then a second small one through the same receive buffer; only the ends of the big
// packet are symbolic.
func VH_C08_TransportBig(n int) {
	conn := &vBigConn{buf: make([]byte, n), n: n}
	s := &slaveConnection{dc: conn}
	ev1, err := s.readBinlogEvent()
	vhAssert(err == nil && ev1 != nil, "first event read")
	b1 := ev1.Bytes()
	vhAssert(len(b1) == n-1, "event holds the packet payload")
	h0, h1, t0, t1 := b1[0], b1[1], b1[n-3], b1[n-2]
	_, err2 := s.readBinlogEvent()
	vhAssert(err2 == nil, "second event read")
	c := ev1.Bytes()
	vhAssert(c[0] == h0 && c[1] == h1 && c[n-3] == t0 && c[n-2] == t1, "an event does not change when the transport reuses its receive buffer")
	vhAssert(!vhSameBacking(c, conn.buf), "events do not alias the receive buffer")
	vhCover("transport-big")
}

type vBigConn struct {
	buf []byte
	n   int
	k   int
}

func (c *vBigConn) Close() error                                    { return nil }
func (c *vBigConn) Exec(string) error                               { return nil }
func (c *vBigConn) NoticeDump(uint32, uint32, string, uint16) error { return nil }
func (c *vBigConn) HandleErrorPacket([]byte) error                  { return errHandler }
func (c *vBigConn) ReadPacket() ([]byte, error) {
	c.k++
	if c.k == 1 {
		c.buf[0] = 0
		c.buf[1], c.buf[2], c.buf[c.n-2], c.buf[c.n-1] = vhU8(), vhU8(), vhU8(), vhU8()
		return c.buf[:c.n], nil
	}
	// the next packet overwrites the start and the end of the receive buffer
	c.buf[0] = 0
	c.buf[1], c.buf[2], c.buf[c.n-2], c.buf[c.n-1] = vhU8(), vhU8(), vhU8(), vhU8()
	return c.buf[:c.n], nil
}

type vCellShape struct {
	typ  byte
	meta uint16
	size int
}

var vCellShapes = []vCellShape{
	{replication.TypeTiny, 0, 1},
	{replication.TypeLong, 0, 4},
	{replication.TypeVarchar, 20, 4}, // 1 length byte + 3
	{replication.TypeTimestamp, 0, 4},
	{replication.TypeTimestamp2, 0, 4},
	{replication.TypeTimestamp2, 2, 5},
	{replication.TypeDateTime2, 0, 5},
	{replication.TypeNewDecimal, 4<<8 | 1, 3},
	{replication.TypeBlob, 1, 3},
	{replication.TypeYear, 0, 1},
	{replication.TypeDate, 0, 3},
	{replication.TypeBit, 1 << 8, 1},
	{replication.TypeSet, 2, 2},
	// 13..
	{replication.TypeShort, 0, 2},
	{replication.TypeInt24, 0, 3},
	{replication.TypeLongLong, 0, 8},
	{replication.TypeTime, 0, 3},
	{replication.TypeDateTime, 0, 8},
	{replication.TypeTime2, 0, 3},
	{replication.TypeTime2, 3, 5},
	{replication.TypeDateTime2, 3, 7},
	{replication.TypeNewDate, 0, 3},
	{replication.TypeEnum, 1, 1},
	{replication.TypeString, uint16(replication.TypeString)<<8 | 8, 3}, // CHAR(8): 1 length byte + 2
	{replication.TypeGeometry, 1, 3},
	// 25..: DECIMAL layouts that leave the decoder by its other exits (no fraction; full 9-digit groups only)
	{replication.TypeNewDecimal, 9 << 8, 4},
	{replication.TypeNewDecimal, 18<<8 | 9, 8},
}

// vCellData draws the bytes of one cell of the shape; zero: all payload bytes zero.
func vCellData(sh vCellShape, zero bool) []byte {
	d := vhBytes(sh.size)
	if zero {
		for i := range d {
			d[i] = 0
		}
	}
	switch sh.typ {
	case replication.TypeVarchar:
		d[0] = byte(sh.size - 1)
	case replication.TypeBlob, replication.TypeGeometry, replication.TypeString:
		d[0] = byte(sh.size - 1)
	}
	return d
}

// VH_C08_Scribble: decode a cell, overwrite every byte of the returned value,
// decode the same bytes again from another buffer: the second result is
// unaffected, and only the cell's own bytes of the first buffer may have changed.
func VH_C08_Scribble(shape, zero int) {
	sh := vCellShapes[shape]
	cell := vCellData(sh, zero == 1)
	mk := func() []byte {
		b := make([]byte, 0, 2+len(cell)+2)
		b = append(b, 0xAA, 0xBB)
		b = append(b, cell...)
		return append(b, 0xCC, 0xDD)
	}
	d1, d2, d3 := mk(), mk(), mk()
	ref, _, err0 := replication.CellBytes(d3, 2, sh.typ, sh.meta, false)
	vhAssert(err0 == nil, "decodes")
	want := make([]byte, len(ref))
	copy(want, ref)
	out1, l, err := replication.CellBytes(d1, 2, sh.typ, sh.meta, false)
	vhAssert(err == nil && l == len(cell), "decodes")
	for i := range out1 {
		out1[i] = vhU8()
	}
	kept := make([]byte, len(out1))
	copy(kept, out1)
	out2, _, err2 := replication.CellBytes(d2, 2, sh.typ, sh.meta, false)
	vhAssert(err2 == nil, "decodes again")
	vhAssert(len(out2) == len(want), "same length")
	for i := range kept {
		vhAssert(out1[i] == kept[i], "a value handed out earlier is not touched by a later decode (it belongs to its holder)")
	}
	for i := range want {
		vhAssert(out2[i] == want[i], "overwriting a delivered value never changes a value delivered later")
	}
	vhAssert(d1[0] == 0xAA && d1[1] == 0xBB && d1[len(d1)-2] == 0xCC && d1[len(d1)-1] == 0xDD, "a value does not extend over its neighbours in the event buffer")
	for i := range d2 {
		vhAssert(d2[i] == d3[i], "other event buffers untouched")
	}
	vhCover("scribble")
}

// vRowTable: a model table map + mapper table over the given cell shapes.
func vRowTable(shapes []vCellShape) *tableCache {
	tm := &replication.TableMap{Database: "db", Name: "t", CanBeNull: replication.NewServerBitmap(len(shapes))}
	t := &vTable{name: NewMysqlTableName("db", "t")}
	for i, sh := range shapes {
		tm.Types = append(tm.Types, sh.typ)
		tm.Metadata = append(tm.Metadata, sh.meta)
		t.cols = append(t.cols, &vColumn{name: "c" + string(rune('0'+i))})
	}
	return &tableCache{tableMap: tm, table: t}
}

var vRowSets = [][]int{
	{3, 3},      // two TIMESTAMP columns
	{4, 2, 4},   // TIMESTAMP2, VARCHAR, TIMESTAMP2
	{2, 8, 9},   // VARCHAR, BLOB, YEAR
	{5, 3, 2},   // TIMESTAMP2(2), TIMESTAMP, VARCHAR
	{7, 2},      // DECIMAL, VARCHAR
	{11, 12, 2}, // BIT, SET, VARCHAR
}

// VH_C08_Row: all columns present and non-NULL; overwrite each delivered value in
// turn and check that no other delivered value of the row (or of a second row) changes.
func VH_C08_Row(set int) {
	var shapes []vCellShape
	for _, i := range vRowSets[set] {
		shapes = append(shapes, vCellShapes[i])
	}
	tc := vRowTable(shapes)
	n := len(shapes)
	mkRow := func() replication.Row {
		var data []byte
		for _, sh := range shapes {
			data = append(data, vCellData(sh, vhChoose(2) == 1)...)
		}
		return replication.Row{NullColumns: replication.NewServerBitmap(n), Data: data}
	}
	rs := &replication.Rows{DataColumns: replication.NewServerBitmap(n), IdentifyColumns: replication.NewServerBitmap(n)}
	for c := 0; c < n; c++ {
		rs.DataColumns.Set(c, true)
	}
	rs.Rows = []replication.Row{mkRow(), mkRow()}
	v0, err0 := getValuesFromRow(tc, rs, 0)
	v1, err1 := getValuesFromRow(tc, rs, 1)
	vhAssert(err0 == nil && err1 == nil, "rows decode")
	all := append(append([]*ColumnData{}, v0.Columns...), v1.Columns...)
	snaps := make([][]byte, len(all))
	for i, c := range all {
		snaps[i] = make([]byte, len(c.Data))
		copy(snaps[i], c.Data)
	}
	victim := vhChoose(len(all))
	for i := range all[victim].Data {
		all[victim].Data[i] = vhU8()
	}
	for i, c := range all {
		if i == victim {
			continue
		}
		vhAssert(len(c.Data) == len(snaps[i]), "length stable")
		for k := range snaps[i] {
			vhAssert(c.Data[k] == snaps[i][k], "overwriting one delivered value never changes any other delivered value")
		}
	}
	vhCover("row")
}

// VH_C08_Update: the before and the after image of an UPDATE row (and the images of a second row)
// are private to each other: the real appendUpdateEventFromRows decodes two rows whose before and
// after cells are arbitrary (equal or not); overwriting any delivered value changes no other one.
func VH_C08_Update(set int) {
	var shapes []vCellShape
	for _, i := range vRowSets[set] {
		shapes = append(shapes, vCellShapes[i])
	}
	tc := vRowTable(shapes)
	n := len(shapes)
	mkImage := func() []byte {
		var data []byte
		for _, sh := range shapes {
			data = append(data, vCellData(sh, false)...)
		}
		return data
	}
	rs := &replication.Rows{DataColumns: replication.NewServerBitmap(n), IdentifyColumns: replication.NewServerBitmap(n)}
	for c := 0; c < n; c++ {
		rs.DataColumns.Set(c, true)
		rs.IdentifyColumns.Set(c, true)
	}
	for r := 0; r < 2; r++ {
		rs.Rows = append(rs.Rows, replication.Row{NullColumns: replication.NewServerBitmap(n), NullIdentifyColumns: replication.NewServerBitmap(n),
			Identify: mkImage(), Data: mkImage()})
	}
	ev, err := appendUpdateEventFromRows(tc, rs, 1)
	vhAssert(err == nil && ev != nil && len(ev.RowIdentifies) == 2 && len(ev.RowValues) == 2, "update rows decode")
	var all []*ColumnData
	for r := 0; r < 2; r++ {
		all = append(all, ev.RowIdentifies[r].Columns...)
		all = append(all, ev.RowValues[r].Columns...)
	}
	snaps := make([][]byte, len(all))
	for i, c := range all {
		snaps[i] = make([]byte, len(c.Data))
		copy(snaps[i], c.Data)
	}
	victim := vhChoose(len(all))
	for i := range all[victim].Data {
		all[victim].Data[i] = vhU8()
	}
	for i, c := range all {
		if i == victim {
			continue
		}
		vhAssert(len(c.Data) == len(snaps[i]), "length stable")
		for k := range snaps[i] {
			vhAssert(c.Data[k] == snaps[i][k], "overwriting one delivered value never changes any other delivered value (before / after images, other rows)")
		}
	}
	vhCover("update")
}

// VH_C08_Absent: the entries that stand for ABSENT columns (partial images) are private too: two rows
// of one event and a row of a later event for the same table, middle column absent; writing into the
// absent-column entry of the first row (flag, data, name) changes no other row's entry.
func VH_C08_Absent() {
	shapes := []vCellShape{vCellShapes[0], vCellShapes[2], vCellShapes[0]} // TINY, VARCHAR, TINY
	tc := vRowTable(shapes)
	useIdentify := vhChoose(2) == 1
	mk := func() *replication.Rows {
		rs := &replication.Rows{DataColumns: replication.NewServerBitmap(3), IdentifyColumns: replication.NewServerBitmap(3)}
		for _, c := range []int{0, 2} {
			if useIdentify {
				rs.IdentifyColumns.Set(c, true)
			} else {
				rs.DataColumns.Set(c, true)
			}
		}
		for r := 0; r < 2; r++ {
			row := replication.Row{NullColumns: replication.NewServerBitmap(2), NullIdentifyColumns: replication.NewServerBitmap(2)}
			img := []byte{byte(7 + r), 9} // the values of the present columns are not the subject here
			if useIdentify {
				row.Identify = img
			} else {
				row.Data = img
			}
			rs.Rows = append(rs.Rows, row)
		}
		return rs
	}
	dec := func(rs *replication.Rows, i int) *RowData {
		var rd *RowData
		var err error
		if useIdentify {
			rd, err = getIdentifiesFromRow(tc, rs, i)
		} else {
			rd, err = getValuesFromRow(tc, rs, i)
		}
		vhAssert(err == nil && rd != nil && len(rd.Columns) == 3, "row decodes")
		return rd
	}
	ev1, ev2 := mk(), mk()
	a, b, c := dec(ev1, 0), dec(ev1, 1), dec(ev2, 0)
	vhAssert(a.Columns[1] != b.Columns[1] && a.Columns[1] != c.Columns[1], "every row has its own entry for an absent column")
	a.Columns[1].IsEmpty = false
	a.Columns[1].Data = []byte("scribble")
	a.Columns[1].Filed = "scribbled"
	for _, o := range []*RowData{b, c} {
		vhAssert(o.Columns[1].IsEmpty && o.Columns[1].Data == nil && o.Columns[1].Filed == "c1", "writing into one row's absent-column entry changes no other row")
	}
	d := dec(ev2, 1) // decoded after the scribble
	vhAssert(d.Columns[1].IsEmpty && d.Columns[1].Data == nil && d.Columns[1].Filed == "c1", "a row decoded later is not affected either")
	vhCover("absent")
}

// VH_C13_Marks: NULL, empty and absent are distinguishable in every column position.
// Table: VARCHAR, BLOB(1), VARCHAR(300) [, LONG]; presence and NULL bits chosen freely.
func VH_C13_Marks(ncols int) {
	shapes := []vCellShape{{replication.TypeVarchar, 20, 0}, {replication.TypeBlob, 1, 0}, {replication.TypeVarchar, 300, 0}, {replication.TypeLong, 0, 4}}[:ncols]
	tc := vRowTable(shapes)
	pres := vhChoose(1 << uint(ncols))
	np := 0
	for c := 0; c < ncols; c++ {
		if pres&(1<<uint(c)) != 0 {
			np++
		}
	}
	nulls := vhChoose(1 << uint(np))
	type exp struct {
		absent, null bool
		val          []byte
	}
	exps := make([]exp, ncols)
	var data []byte
	k := 0
	for c := 0; c < ncols; c++ {
		if pres&(1<<uint(c)) == 0 {
			exps[c].absent = true
			continue
		}
		if nulls&(1<<uint(k)) != 0 {
			exps[c].null = true
			k++
			continue
		}
		k++
		if shapes[c].typ == replication.TypeLong {
			data = append(data, 7, 0, 0, 0)
			exps[c].val = []byte("7")
			continue
		}
		L := vhChoose(3) // 0: the empty string
		payload := vhBytes(L)
		if shapes[c].meta > 255 {
			data = append(data, byte(L), 0)
		} else {
			data = append(data, byte(L))
		}
		data = append(data, payload...)
		exps[c].val = payload
	}
	useIdentify := vhChoose(2) == 1
	rs := &replication.Rows{DataColumns: replication.NewServerBitmap(ncols), IdentifyColumns: replication.NewServerBitmap(ncols)}
	row := replication.Row{NullColumns: replication.NewServerBitmap(np), NullIdentifyColumns: replication.NewServerBitmap(np)}
	k = 0
	for c := 0; c < ncols; c++ {
		on := pres&(1<<uint(c)) != 0
		if useIdentify {
			rs.IdentifyColumns.Set(c, on)
		} else {
			rs.DataColumns.Set(c, on)
		}
		if on {
			if useIdentify {
				row.NullIdentifyColumns.Set(k, nulls&(1<<uint(k)) != 0)
			} else {
				row.NullColumns.Set(k, nulls&(1<<uint(k)) != 0)
			}
			k++
		}
	}
	if useIdentify {
		row.Identify = data
	} else {
		row.Data = data
	}
	rs.Rows = []replication.Row{row}
	var rd *RowData
	var err error
	if useIdentify {
		rd, err = getIdentifiesFromRow(tc, rs, 0)
	} else {
		rd, err = getValuesFromRow(tc, rs, 0)
	}
	vhAssert(err == nil && rd != nil, "row decodes")
	vhAssert(len(rd.Columns) == ncols, "one entry per table column")
	for c := 0; c < ncols; c++ {
		col := rd.Columns[c]
		vhAssert(col.Filed == "c"+string(rune('0'+c)), "column name by ordinal")
		vhAssert(col.Type == ColumnType(shapes[c].typ), "column type")
		switch {
		case exps[c].absent:
			vhAssert(col.IsEmpty && col.Data == nil, "absent column: flagged, no data")
		case exps[c].null:
			vhAssert(!col.IsEmpty && col.Data == nil, "SQL NULL: present, no data")
		default:
			vhAssert(!col.IsEmpty && col.Data != nil, "value: present data (possibly empty), distinguishable from NULL")
			vhAssert(len(col.Data) == len(exps[c].val), "value length")
			for i := range exps[c].val {
				vhAssert(col.Data[i] == exps[c].val[i], "value bytes verbatim")
			}
		}
	}
	vhCover("marks")
}
