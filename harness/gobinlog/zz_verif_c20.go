//go:build verif

package gobinlog

import (
	"encoding/json"

	"github.com/Breeze0806/gobinlog/replication"
)

// C20: transactions serialise to well-formed, structure-preserving JSON.

func init() {
	vhRegister("VH_C20_Marshal", func(p []int) { VH_C20_Marshal(p[0]) })
	vhRegister("VH_C20_Names", func(p []int) { VH_C20_Names() })
}

func vhASCII(n int) []byte {
	b := vhBytes(n)
	for i := range b {
		vhAssume(b[i] < 0x80) // valid UTF-8 (ASCII incl. quotes and control characters)
	}
	return b
}

func vhEqStr(got string, want []byte, msg string) {
	vhAssert(len(got) == len(want), msg+": length")
	for i := range want {
		vhAssert(got[i] == want[i], msg)
	}
}

func vhPos() Position {
	return Position{Filename: string(vhASCII(2)), Offset: vhI64()}
}

func vhCheckPos(j vhJ, p Position, msg string) {
	vhAssert(vhJKind(j) == 5 && vhJLen(j) == 2, msg+": object with filename and offset")
	f, ok := vhJField(j, "filename")
	vhAssert(ok && vhJKind(f) == 3, msg+": filename")
	vhEqStr(vhJString(f), []byte(p.Filename), msg+": filename text")
	o, ok2 := vhJField(j, "offset")
	vhAssert(ok2 && vhJKind(o) == 2 && vhJNum(o) == p.Offset, msg+": offset")
}

// VH_C20_Marshal: shape 0: one SQL event; 1: one rows event (2 rows x 2 columns, NULL / empty /
// value / absent chosen per column); 2: two events (rows + SQL); 3: no events; 4: nil events;
// 5: a rows event without rows + SQL.
func VH_C20_Marshal(shape int) {
	tr := &Transaction{NowPosition: vhPos(), NextPosition: vhPos(), Timestamp: int64(vhU32())}
	mkSQL := func() *StreamEvent {
		ev := newStreamEvent([]StatementType{StatementCreate, StatementInsert, StatementUnknown}[vhChoose(3)], int64(vhU32()),
			NewMysqlTableName(string(vhASCII(1)), string(vhASCII(2))))
		ev.Query = replication.Query{SQL: string(vhASCII(1 + vhChoose(2)*2))}
		return ev
	}
	mkCol := func() *ColumnData {
		c := newColumnData(string(vhASCII(2)), ColumnType([]int{3, 15, 246, 200}[vhChoose(4)]), false)
		switch vhChoose(3) {
		case 0:
			c.Data = nil // SQL NULL
		case 1:
			c.Data = []byte{} // empty string
		case 2:
			c.Data = vhASCII(2)
		}
		c.IsEmpty = vhChoose(2) == 1 // the absent flag is serialised independently of the data
		return c
	}
	mkRows := func() *StreamEvent {
		ev := newStreamEvent([]StatementType{StatementInsert, StatementUpdate, StatementDelete}[vhChoose(3)], int64(vhU32()),
			NewMysqlTableName(string(vhASCII(1)), string(vhASCII(1))))
		for r := 0; r < 2; r++ {
			rd := newRowData(2)
			if r == 0 {
				rd.Columns = append(rd.Columns, mkCol(), mkCol())
			} else {
				c := newColumnData("k", ColumnType(1), false)
				c.Data = vhASCII(1)
				rd.Columns = append(rd.Columns, c)
			}
			if ev.Type != StatementDelete {
				ev.RowValues = append(ev.RowValues, rd)
			}
			if ev.Type != StatementInsert && r == 0 {
				ev.RowIdentifies = append(ev.RowIdentifies, rd)
			}
		}
		return ev
	}
	switch shape {
	case 0:
		tr.Events = []*StreamEvent{mkSQL()}
	case 1:
		tr.Events = []*StreamEvent{mkRows()}
	case 2:
		tr.Events = []*StreamEvent{mkRows(), mkSQL()}
	case 3:
		tr.Events = []*StreamEvent{}
	case 7:
		// two statements on tables whose (database, table) name lengths are (5,1) and (1,5): different
		// pairs of names whose quoted concatenation `db`.`table` can coincide
		a := newStreamEvent(StatementCreate, int64(vhU32()), NewMysqlTableName(string(vhASCII(5)), string(vhASCII(1))))
		b := newStreamEvent(StatementCreate, int64(vhU32()), NewMysqlTableName(string(vhASCII(1)), string(vhASCII(5))))
		a.Query = replication.Query{SQL: "x"}
		b.Query = replication.Query{SQL: "y"}
		tr.Events = []*StreamEvent{a, b}
	case 5:
		// a rows event that carries no row (an empty rows section), followed by a statement
		empty := newStreamEvent([]StatementType{StatementInsert, StatementUpdate, StatementDelete}[vhChoose(3)], int64(vhU32()),
			NewMysqlTableName(string(vhASCII(1)), string(vhASCII(1))))
		tr.Events = []*StreamEvent{empty, mkSQL()}
	}
	if shape == 6 {
		// the serialisation of one transaction stays what it was when another transaction is serialised
		// afterwards (the public MarshalJSON methods called directly, as an application may do)
		tr.Events = []*StreamEvent{mkSQL()}
		other := &Transaction{NowPosition: vhPos(), NextPosition: vhPos(), Timestamp: int64(vhU32()), Events: []*StreamEvent{mkSQL()}}
		other.NowPosition.Offset = tr.NowPosition.Offset + 1 // the two differ whatever the inputs are
		other.NextPosition.Offset = tr.NextPosition.Offset + 2
		b1, err1 := tr.MarshalJSON()
		vhAssert(err1 == nil, "serialising a transaction succeeds")
		b2, err2 := other.MarshalJSON()
		vhAssert(err2 == nil, "serialising a transaction succeeds")
		r1, ok1 := vhJSONParse(b1)
		r2, ok2 := vhJSONParse(b2)
		vhAssert(ok1 && ok2, "well-formed JSON")
		n1, _ := vhJField(r1, "nowPosition")
		n2, _ := vhJField(r2, "nowPosition")
		vhCheckPos(n1, tr.NowPosition, "first transaction's JSON still describes the first transaction")
		vhCheckPos(n2, other.NowPosition, "second transaction's JSON describes the second transaction")
		x1, _ := vhJField(r1, "nextPosition")
		vhCheckPos(x1, tr.NextPosition, "first transaction's JSON still describes the first transaction")
		vhCover("two-serialisations")
		return
	}
	out, err := json.Marshal(tr)
	vhAssert(err == nil, "serialising a transaction succeeds")
	root, ok := vhJSONParse(out)
	vhAssert(ok, "well-formed JSON")
	vhAssert(vhJKind(root) == 5 && vhJLen(root) == 4, "transaction object with four members")
	now, ok1 := vhJField(root, "nowPosition")
	next, ok2 := vhJField(root, "nextPosition")
	ts, ok3 := vhJField(root, "timestamp")
	evs, ok4 := vhJField(root, "events")
	vhAssert(ok1 && ok2 && ok3 && ok4, "nowPosition, nextPosition, timestamp, events")
	vhCheckPos(now, tr.NowPosition, "nowPosition")
	vhCheckPos(next, tr.NextPosition, "nextPosition")
	vhAssert(vhJKind(ts) == 3, "timestamp rendered as text")
	if tr.Events == nil {
		vhAssert(vhJKind(evs) == 0, "nil events")
		vhCover("nil-events")
		return
	}
	vhAssert(vhJKind(evs) == 4 && vhJLen(evs) == len(tr.Events), "events array keeps count and order")
	for i, ev := range tr.Events {
		je := vhJIndex(evs, i)
		vhAssert(vhJKind(je) == 5, "event object")
		name, okn := vhJField(je, "name")
		vhAssert(okn && vhJKind(name) == 5, "table name object")
		db, _ := vhJField(name, "db")
		tb, _ := vhJField(name, "table")
		vhEqStr(vhJString(db), []byte(ev.Table.DbName), "database name")
		vhEqStr(vhJString(tb), []byte(ev.Table.TableName), "table name")
		typ, okt := vhJField(je, "type")
		vhAssert(okt && vhJKind(typ) == 3 && vhJString(typ) == ev.Type.String(), "event kind")
		ets, oke := vhJField(je, "timestamp")
		vhAssert(oke && vhJKind(ets) == 3, "event timestamp text")
		if ev.Query.SQL != "" {
			sql, oks := vhJField(je, "sql")
			vhAssert(oks && vhJKind(sql) == 3, "sql member")
			vhEqStr(vhJString(sql), []byte(ev.Query.SQL), "SQL text")
			vhAssert(vhJLen(je) == 4, "SQL event has name, type, timestamp, sql")
			vhCover("sql-event")
			continue
		}
		vhAssert(vhJLen(je) == 5, "rows event has name, type, timestamp, rowValues, rowIdentifies")
		for _, side := range []struct {
			key  string
			rows []*RowData
		}{{"rowValues", ev.RowValues}, {"rowIdentifies", ev.RowIdentifies}} {
			jr, okr := vhJField(je, side.key)
			vhAssert(okr && vhJKind(jr) == 4 && vhJLen(jr) == len(side.rows), "row images array")
			for r, rd := range side.rows {
				jrow := vhJIndex(jr, r)
				cols, okc := vhJField(jrow, "Columns")
				vhAssert(okc && vhJKind(cols) == 4 && vhJLen(cols) == len(rd.Columns), "columns of a row, in order")
				for c, cd := range rd.Columns {
					jc := vhJIndex(cols, c)
					vhAssert(vhJKind(jc) == 5 && vhJLen(jc) == 4, "column object: filed, type, isEmpty, data")
					f, _ := vhJField(jc, "filed")
					vhEqStr(vhJString(f), []byte(cd.Filed), "column name")
					ct, _ := vhJField(jc, "type")
					vhAssert(vhJKind(ct) == 3 && vhJString(ct) == cd.Type.String(), "column type name")
					ie, _ := vhJField(jc, "isEmpty")
					vhAssert(vhJKind(ie) == 1 && vhJBool(ie) == cd.IsEmpty, "absent flag")
					d, okd := vhJField(jc, "data")
					vhAssert(okd, "data member present")
					if cd.Data == nil {
						vhAssert(vhJKind(d) == 0, "SQL NULL is JSON null")
					} else {
						vhAssert(vhJKind(d) == 3, "non-NULL data is a JSON string (the empty string is not null)")
						vhEqStr(vhJString(d), cd.Data, "data verbatim")
					}
				}
			}
		}
		vhCover("rows-event")
	}
}

// VH_C20_Names: every supported type code has a distinct name that is not "unknown".
func VH_C20_Names() {
	codes := []int{0, 1, 2, 3, 4, 5, 6, 7, 8, 9, 10, 11, 12, 13, 14, 15, 16, 17, 18, 19, 245, 246, 247, 248, 249, 250, 251, 252, 253, 254, 255}
	seen := map[string]bool{}
	for _, c := range codes {
		n := ColumnType(c).String()
		vhAssert(n != "unknown" && n != "", "supported type has a name")
		vhAssert(!seen[n], "type names are distinct")
		seen[n] = true
	}
	vhAssert(ColumnType(200).String() == "unknown", "unsupported code")
	for st := StatementUnknown; st <= StatementSet; st++ {
		n := st.String()
		vhAssert(n != "", "statement type has a name")
		if st != StatementUnknown {
			vhAssert(n != "unknown" && GetStatementCategory(n) == st, "statement type name round-trips")
		}
	}
	vhCover("names")
}
