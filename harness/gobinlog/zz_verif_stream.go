//go:build verif

package gobinlog

// Stream-level harnesses (C05, C06, C07, C04 second half): the real
// Streamer.Stream / Error / newSlaveConnection / startDumpFromBinlogPosition
// (including its reader goroutine) run against a scripted master.
// Under the engine the MySQL driver is replaced by the model connection vConn
// (mysql.NewDumpConn -> vhModelDumpConn); natively the very same script is
// served by a fake MySQL master on a loopback socket through the real driver.

import (
	"context"
	"errors"
	"fmt"
	"io"

	"github.com/Breeze0806/mysql"
)

func init() {
	vhRegister("VH_C17_Conn", func(p []int) { VH_C17_Conn(p[0], p[1]) })
	vhRegister("VH_C05_Stream", func(p []int) { VH_C05_Stream(p[0], p[1], p[2], p[3]) })
	vhRegister("VH_C07_Handshake", func(p []int) { VH_C07_Handshake(p[0]) })
	vhRegister("VH_C07_Attempts", func(p []int) { VH_C07_Attempts(p[0], p[1]) })
}

const (
	endIdle = iota // master sends nothing more and keeps the connection open
	endEOF
	endERR
	endLost
)

type vScript struct {
	packets     [][]byte // event packets (without the 0x00 marker byte)
	end         int
	errCode     uint16
	errMsg      []byte
	failFactory bool
	failExec    bool
	execCode    uint16 // error code of the master's answer to the SET statement when failExec
	slowDial    bool   // the master accepts the connection and stays silent: establishing it only ends by cancellation
	failNotice  bool
	pipe        bool // native only: in-memory transport instead of loopback TCP
	ahead       bool // pacing: master far ahead (buffered hand-off) or lock-step
	// serve, when set, computes the packets from the requested dump position (multi-attempt harness)
	serve func(file string, offset uint32) [][]byte
}

type vCall struct {
	kind     int // 0 Exec, 1 NoticeDump, 2 ReadPacket, 3 Close
	query    string
	serverID uint32
	offset   uint32
	file     string
	flags    uint16
}

// vMasterError is the model of the driver's *mysql.MySQLError.
type vMasterError struct {
	code uint16
	msg  string
}

// Error renders like the driver's MySQLError ("Error <number>: <message>").
func (e *vMasterError) Error() string { return fmt.Sprintf("Error %d: %s", e.code, e.msg) }

// what the bundled driver returns when a read from the socket fails (packets.go: the cause is logged,
// the connection closed, ErrInvalidConn returned)
var errConnLost error = mysql.ErrInvalidConn
var errModelClosed = errors.New("model: connection closed locally")
var errModelFail = errors.New("model: scripted failure")

// vConn is the model connection (engine only).
type vConn struct {
	sc     *vScript
	in     chan []byte
	closed chan struct{}
	isDown bool
	gone   bool // the master has closed its end of the connection
	log    []vCall
	buf    []byte // the connection's receive buffer: reused for every packet, as the real driver does
}

// vhDrvFill stands in for the driver filling its receive buffer (the engine's race monitor treats
// vhDrv* functions as driver code running on the library's goroutine).
func vhDrvFill(dst, src []byte) {
	for i := range src {
		dst[i] = src[i]
	}
}

var vCurScript *vScript
var vCurConns []*vConn

// vhModelDumpConn stands in for mysql.NewDumpConn under the engine.
func vhModelDumpConn(dsn string, ctx context.Context) (*vConn, error) {
	sc := vCurScript
	if sc.failFactory {
		return nil, errModelFail
	}
	if err := ctx.Err(); err != nil {
		return nil, err // the driver dials and shakes hands under the context
	}
	if sc.slowDial {
		// the handshake never arrives: the driver waits for it under the context it was given
		<-ctx.Done()
		return nil, ctx.Err()
	}
	n := 0
	if sc.ahead {
		n = 8
	}
	c := &vConn{sc: sc, in: make(chan []byte, n), closed: make(chan struct{})}
	vCurConns = append(vCurConns, c)
	return c, nil
}

func (c *vConn) Exec(q string) error {
	c.log = append(c.log, vCall{kind: 0, query: q})
	if c.sc.failExec {
		// the master REFUSES the statement (ERR packet): the driver's own error type, connection still usable
		return &mysql.MySQLError{Number: c.sc.execCode, Message: "scripted failure"}
	}
	return nil
}

func (c *vConn) NoticeDump(serverID, offset uint32, file string, flags uint16) error {
	c.log = append(c.log, vCall{kind: 1, serverID: serverID, offset: offset, file: file, flags: flags})
	if c.sc.failNotice {
		return errModelFail
	}
	pk := c.sc.packets
	if c.sc.serve != nil {
		pk = c.sc.serve(file, offset)
	}
	go c.master(pk)
	return nil
}

// master: the model of the MySQL master after COM_BINLOG_DUMP.
func (c *vConn) master(packets [][]byte) {
	for i, p := range packets {
		b := append([]byte{0}, p...)
		select {
		case c.in <- b:
			vhEnvDone(evPacket + i)
		case <-c.closed:
			return
		}
	}
	if c.sc.end != endIdle {
		defer vhEnvDone(evEnd)
	}
	switch c.sc.end {
	case endEOF:
		select {
		case c.in <- []byte{0xfe}:
		case <-c.closed:
		}
	case endERR:
		b := []byte{0xff, byte(c.sc.errCode), byte(c.sc.errCode >> 8), '#', 'H', 'Y', '0', '0', '0'}
		b = append(b, c.sc.errMsg...)
		select {
		case c.in <- b:
		case <-c.closed:
		}
	case endLost:
		c.gone = true
		close(c.in)
	}
}

func (c *vConn) ReadPacket() ([]byte, error) {
	c.log = append(c.log, vCall{kind: 2})
	select {
	case p, ok := <-c.in:
		if !ok {
			return nil, errConnLost
		}
		if len(p) > len(c.buf) {
			c.buf = make([]byte, len(p))
		}
		vhDrvFill(c.buf, p)
		return c.buf[:len(p)], nil
	case <-c.closed:
		return nil, errModelClosed
	}
}

func (c *vConn) HandleErrorPacket(data []byte) error {
	// the driver's own error type, so that code inspecting it (type assertion, Number) sees what it sees natively
	return &mysql.MySQLError{Number: uint16(data[1]) | uint16(data[2])<<8, Message: string(data[9:])}
}

func (c *vConn) Close() error {
	c.log = append(c.log, vCall{kind: 3})
	if !c.isDown {
		c.isDown = true
		close(c.closed)
	}
	if c.gone {
		// the driver says goodbye (COM_QUIT) before it closes the socket; on a connection the master
		// has already dropped that write fails and Close reports it (the socket is closed all the same)
		return errConnLost
	}
	return nil
}

// vhMasterErr extracts (code, message) from what the connection produced for an
// ERR packet: the model error under the engine, *mysql.MySQLError natively.
func vhMasterErr(err error) (uint16, string, bool) {
	switch e := err.(type) {
	case *vMasterError:
		return e.code, e.msg, true
	case *mysql.MySQLError:
		return e.Number, e.Message, true
	}
	return 0, "", false
}

// ---- event packets (independent writer, see replication harness) ----

func vwU32(b []byte, v uint32) []byte {
	return append(b, byte(v), byte(v>>8), byte(v>>16), byte(v>>24))
}

func vwEv(typ byte, next uint32, body []byte) []byte {
	var b []byte
	b = vwU32(b, 1700000000)
	b = append(b, typ)
	b = vwU32(b, 1)
	b = vwU32(b, uint32(19+len(body)))
	b = vwU32(b, next)
	b = append(b, 0, 0)
	return append(b, body...)
}

func vwFDE() []byte {
	body := []byte{4, 0}
	ver := make([]byte, 50)
	copy(ver, "5.7.0")
	body = append(body, ver...)
	body = vwU32(body, 0)
	body = append(body, 19)
	hs := make([]byte, 40)
	hs[1], hs[3], hs[14] = 13, 8, 84
	body = append(body, hs...)
	body = append(body, 0) // checksum algorithm: off
	body = append(body, 0, 0, 0, 0)
	return vwEv(15, 0, body)
}

func vwQuery(sql string, next uint32) []byte {
	var body []byte
	body = vwU32(body, 1)
	body = vwU32(body, 0)
	body = append(body, 2) // db length
	body = append(body, 0, 0, 0, 0)
	body = append(body, 'd', 'b', 0)
	body = append(body, sql...)
	return vwEv(2, next, body)
}

func vwRotate(name string, pos uint64) []byte {
	var body []byte
	body = vwU32(body, uint32(pos))
	body = vwU32(body, uint32(pos>>32))
	body = append(body, name...)
	return vwEv(4, 0, body)
}

// environment events (see vhEnvWait / vhEnvDone)
const (
	evPacket       = 100 // + index of the packet the master has delivered
	evHandlerEnter = 200 // + number of the handler call
	evHandlerExit  = 300
	evCancel       = 400
	evEnd          = 500 // the master's end-of-script action (EOF / ERR packet, connection loss)
)

// stop causes of VH_C05_Stream
const (
	scCancel = iota
	scEOF
	scERR
	scLost
	scHandler
	scFactory
	scExec
	scNotice
	scCancelAndLost
	scHandlerAndCancel // the handler rejects the first transaction while the caller cancels
	scHandlerAndLost   // the handler rejects the first transaction and the master drops the connection after its last packet
	scHandlerAndEOF    // the handler rejects the first transaction while the master's EOF for the whole dump arrives
	scCancelInDial     // the caller cancels while the connection is being established (master accepts, then stays silent)
	scKinds
)

// VH_C05_Stream (also decides C06): one stream attempt.
//
//	cause   stop cause (sc*)
//	npk     number of transaction packets after the format description (0..2)
//	ahead   0 lock-step hand-off, 1 master far ahead
//	hmode   handler: 0 returns at once, 1 yields before returning; 2: as 0, with an 18-byte master error message;
//	        3: as 0, with a STOP_EVENT in the stream before the transactions
//	        4: as 0, the transactions are BEGIN ... ROLLBACK pairs (delivered empty)
func VH_C05_Stream(cause, npk, ahead, hmode int) {
	msgLen := 3
	if hmode == 2 {
		msgLen, hmode = 18, 0
	}
	stopEvent := hmode == 3
	if stopEvent {
		hmode = 0
	}
	rolledBack := hmode == 4
	if rolledBack {
		hmode = 0
	}
	sc := &vScript{ahead: ahead == 1}
	sc.packets = append(sc.packets, vwRotate("bin.000001", 4), vwFDE())
	if stopEvent {
		// a STOP_EVENT (the old file was closed by a server shutdown) passes through before the
		// transactions: whatever ends the stream later is reported exactly as without it
		sc.packets = append(sc.packets, vwEv(3, 150, nil))
	}
	for i := 0; i < npk; i++ {
		if rolledBack {
			// a rolled-back transaction: delivered as an EMPTY transaction that advances the position;
			// the handler's verdict on it counts like any other
			sc.packets = append(sc.packets, vwQuery("BEGIN", uint32(150+100*i)), vwQuery("ROLLBACK", uint32(200+100*i)))
			continue
		}
		sc.packets = append(sc.packets, vwQuery("create table t"+string(rune('0'+i))+" (a int)", uint32(200+100*i)))
	}
	switch cause {
	case scEOF:
		sc.end = endEOF
	case scERR:
		sc.end = endERR
		sc.errCode = vhU16()
		sc.errMsg = vhBytes(msgLen)
		for i := range sc.errMsg {
			vhAssume(sc.errMsg[i] >= 0x20 && sc.errMsg[i] < 0x7f) // printable message text
		}
	case scHandlerAndEOF:
		sc.end = endEOF
	case scHandlerAndLost:
		sc.end = endLost
		sc.pipe = true // natively: a write to the departed master fails at once, so Close() reports an error
	case scLost, scCancelAndLost:
		sc.end = endLost
	case scFactory:
		sc.failFactory = true
	case scCancelInDial:
		sc.slowDial = true
	case scExec:
		sc.failExec = true
		sc.end = endEOF // should a dump start all the same, it ends, and the assertions below speak
		sc.execCode = vhU16()
		// codes the driver itself reacts to (read-only / bad-connection handling) are left out
		vhAssume(sc.execCode != 1290 && sc.execCode != 1792 && sc.execCode != 1836 && sc.execCode != 0)
	case scNotice:
		sc.failNotice = true
		sc.pipe = true
	}
	env := vhStartEnv(sc)
	defer env.stop()
	ctx := newVCtx()
	if cause == scCancel || cause == scCancelAndLost || cause == scHandlerAndCancel || cause == scCancelInDial {
		go func() {
			vhEnvWait(evCancel)
			ctx.cancel() // the start of this goroutine is itself an arbitrary scheduling point
			vhEnvDone(evCancel)
		}()
	}
	s, _ := NewStreamer(env.dsn(), 7, &vMapper{})
	s.SetBinlogPosition(Position{Filename: "bin.000001", Offset: 4})
	caller := vhThreadID()
	inHandler := false
	streamReturned := false
	delivered := 0
	// what the handler fails with is the application's business: a value of its own, or one that
	// happens to be a well-known sentinel (io.EOF from its own sink, context.Canceled from its own work)
	herr := errHandler
	if cause == scHandler || cause == scHandlerAndEOF {
		herr = []error{errHandler, io.EOF, context.Canceled}[vhChoose(3)]
	}
	handler := func(t *Transaction) error {
		vhAssert(vhThreadID() == caller, "the handler is only called from within Stream (caller's goroutine)")
		vhAssert(!streamReturned, "the handler is never called after Stream has returned")
		vhAssert(!inHandler, "one handler call at a time")
		inHandler = true
		vhEnvWait(evHandlerEnter + delivered)
		vhEnvDone(evHandlerEnter + delivered)
		if hmode == 1 {
			vhYield()
		}
		vhEnvWait(evHandlerExit + delivered)
		vhEnvDone(evHandlerExit + delivered)
		delivered++
		inHandler = false
		if (cause == scHandler || cause == scHandlerAndCancel || cause == scHandlerAndLost || cause == scHandlerAndEOF) && delivered == 1 {
			return herr
		}
		return nil
	}
	err := s.Stream(ctx, handler)
	streamReturned = true
	vhObserve("stream_err_nil", vhB2U(err == nil))
	vhObserve("delivered", uint64(delivered))
	e1 := s.Error() // must return (a blocked call is reported as a deadlock)
	// if the context is not cancelled even now, Error() cannot have seen a cancellation
	cancelledBeforeAsk := ctx.Err() != nil
	e2 := s.Error()
	_ = e2
	live := vhQuiesce()
	vhAssert(live == 0, "no goroutine started by the library remains after Stream returned")
	created, closedN := env.connStats()
	vhAssert(closedN == created, "every connection to the master is closed")
	if cause == scFactory {
		vhAssert(created == 0, "no connection exists when the factory fails")
	} else if err == nil {
		vhAssert(created == 1, "a stream that ran had exactly one connection")
	}

	// ---- C06: the reason the stream ended is reported ----
	switch cause {
	case scHandler, scHandlerAndCancel, scHandlerAndLost, scHandlerAndEOF:
		if delivered >= 1 {
			vhAssert(err != nil, "a handler failure makes Stream return an error")
		}
	case scFactory, scExec, scNotice:
		vhAssert(err != nil, "a failed handshake makes Stream return an error")
	case scCancelInDial:
		vhAssert(err != nil, "a connection that could not be established makes Stream return an error")
		vhAssert(delivered == 0, "nothing is delivered")
	}
	if cause == scExec {
		for _, c := range env.calls() {
			vhAssert(c.kind != 1, "no dump request goes out on a connection whose checksum announcement the master refused")
		}
	}
	if err == nil {
		switch cause {
		case scCancel, scEOF:
			vhAssert(e1 == nil, "cancellation / master EOF is a clean end")
		case scERR:
			if !cancelledBeforeAsk {
				vhAssert(e1 != nil, "a master error is never reported as a clean end")
				ge, ok := e1.(*Error)
				vhAssert(ok && ge != nil, "Error() returns the library's error type")
				code, msg, isMaster := vhMasterErr(ge.Original())
				vhAssert(isMaster, "the error carries the master's error")
				vhAssert(code == sc.errCode, "master error code")
				vhAssert(len(msg) == len(sc.errMsg), "master error message length")
				for i := range sc.errMsg {
					vhAssert(msg[i] == sc.errMsg[i], "master error message")
				}
			}
		case scLost:
			vhAssert(e1 != nil, "a lost connection is never reported as a clean end")
		case scCancelAndLost:
			if !cancelledBeforeAsk {
				vhAssert(e1 != nil, "a lost connection is never reported as a clean end")
			}
		}
	}
	if err != nil {
		vhCover("stream-error")
	} else if e1 != nil {
		vhCover("error-reported")
	} else {
		vhCover("clean-end")
	}
}

// VH_C07_Handshake: one attempt; server id, offset and file name symbolic.
func VH_C07_Handshake(nameLen int) {
	sc := &vScript{end: endEOF}
	sc.packets = append(sc.packets, vwFDE())
	env := vhStartEnv(sc)
	defer env.stop()
	serverID := vhU32()
	off := vhU32()
	vhAssume(off >= 4)
	name := vhBytes(nameLen)
	for i := range name {
		vhAssume(name[i] >= 0x20 && name[i] < 0x7f) // printable file names (the native fake master logs them)
	}
	s, _ := NewStreamer(env.dsn(), serverID, &vMapper{})
	s.SetBinlogPosition(Position{Filename: string(name), Offset: int64(off)})
	err := s.Stream(newVCtx(), func(*Transaction) error { return nil })
	vhAssert(err == nil, "stream ends cleanly at the master's EOF")
	vhAssert(s.Error() == nil, "EOF is a clean end")
	calls := env.calls()
	vhAssert(len(calls) >= 2, "handshake commands issued")
	vhAssert(calls[0].kind == 0 && calls[0].query == "SET @master_binlog_checksum=@@global.binlog_checksum", "checksum awareness is announced first")
	vhAssert(calls[1].kind == 1, "then the dump request")
	vhAssert(calls[1].serverID == serverID, "dump request carries the configured server id")
	vhAssert(calls[1].offset == off, "dump request carries the offset of the current position")
	vhAssert(calls[1].flags == 0, "blocking dump request")
	vhAssert(len(calls[1].file) == len(name), "file name length")
	for i := range name {
		vhAssert(calls[1].file[i] == name[i], "dump request carries the file name of the current position")
	}
	n0, n1 := 0, 0
	for _, c := range calls {
		if c.kind == 0 {
			n0++
		}
		if c.kind == 1 {
			n1++
		}
	}
	vhAssert(n0 == 1 && n1 == 1, "exactly one checksum announcement and one dump request")
	vhCover("handshake")
}

// VH_C07_Attempts(attempts, ahead): up to `attempts` failed attempts followed by a successful one on the
// same streamer against a master that serves the log from whatever position is requested.
// Log: bin.999999 (start 100) holds DDL transactions ending at 200 and 300 and is then rotated
// to bin.1000000 (a file name that sorts BEFORE the old one), which holds one ending at 400.
func VH_C07_Attempts(attempts, ahead int) {
	const oldFile, newFile = "bin.999999", "bin.1000000"
	type logTx struct {
		file       string
		start, end uint32
	}
	log := []logTx{{oldFile, 100, 200}, {oldFile, 200, 300}, {newFile, 4, 400}}
	sc := &vScript{pipe: true, ahead: ahead == 1} // pacing: lock-step, or the master far ahead of the reader
	var requested []uint32
	var files []string
	sc.serve = func(file string, offset uint32) [][]byte {
		requested = append(requested, offset)
		files = append(files, file)
		pk := [][]byte{vwRotate(file, uint64(offset)), vwFDE()}
		cur := file
		for i, tx := range log {
			if tx.file != cur {
				if cur != oldFile {
					continue
				}
				// end of the old file: the real ROTATE event, then the new file's head
				pk = append(pk, vwEv(4, 350, append([]byte{4, 0, 0, 0, 0, 0, 0, 0}, newFile...)), vwRotate(newFile, 4), vwFDE())
				cur = newFile
				offset = 4
			}
			if tx.start >= offset {
				pk = append(pk, vwQuery("create table t"+string(rune('0'+i))+" (a int)", tx.end))
			}
		}
		return pk
	}
	env := vhStartEnv(sc)
	defer env.stop()
	s, _ := NewStreamer(env.dsn(), 9, &vMapper{})
	s.SetBinlogPosition(Position{Filename: oldFile, Offset: 100})
	var accepted []int64 // end offsets of accepted transactions, in order
	ghost := Position{Filename: oldFile, Offset: 100}
	for a := 0; a <= attempts; a++ {
		last := a == attempts
		fault := -1
		rejectAt := -1
		cancelAt := -1
		if !last {
			// 0 handler rejects delivery number rejectAt of this attempt (earlier ones are accepted),
			// 1 master ERR, 2 connection lost, 3 the dump request itself fails,
			// 4 the caller cancels while the handler stores delivery number cancelAt (which it accepts)
			fault = vhChoose(5)
			if fault == 0 {
				rejectAt = vhChoose(3)
			}
			if fault == 4 {
				cancelAt = vhChoose(2)
			}
		}
		sc.failNotice = fault == 3
		endKind := fault
		if last {
			// the final attempt delivers whatever is left and may itself end in any way
			endKind = vhChoose(3) // 0 EOF, 1 master ERR, 2 connection lost
		}
		switch endKind {
		case 1:
			sc.end, sc.errCode, sc.errMsg = endERR, 1236, []byte("x")
		case 2:
			sc.end = endLost
		default:
			sc.end = endEOF
		}
		ctx := newVCtx()
		ndeliv := 0
		before := len(requested)
		ghostBefore := ghost
		sawNewFile := false
		err := s.Stream(ctx, func(t *Transaction) error {
			if t.NextPosition.Filename == newFile {
				sawNewFile = true // the ROTATE in front of this transaction has been consumed
			}
			if ndeliv == rejectAt {
				ndeliv++
				return errHandler
			}
			if ndeliv == cancelAt {
				ctx.cancel()
			}
			ndeliv++
			vhAssert(t.NextPosition.Filename == log[len(accepted)].file && t.NextPosition.Offset == int64(log[len(accepted)].end), "transactions arrive in log order with their end labels")
			accepted = append(accepted, t.NextPosition.Offset)
			ghost = t.NextPosition
			// the transaction belongs to the handler now: what it does with it must not reach the streamer
			t.NextPosition = Position{Filename: "scribbled", Offset: 1}
			t.NowPosition = Position{Filename: "scribbled", Offset: 2}
			return nil
		})
		if last {
			vhAssert(err == nil, "the final attempt streams to the end of the dump without an error")
		}
		e1 := s.Error()
		// the reason each attempt ended is reported for THAT attempt, whatever ended the earlier ones
		switch {
		case ctx.Err() != nil:
			vhAssert(e1 == nil, "a stream the caller cancelled is a clean end")
		case (last && endKind == 0):
			vhAssert(err == nil && e1 == nil, "the master's EOF is a clean end")
		case (last && endKind != 0) || fault == 1 || fault == 2:
			vhAssert(err == nil && e1 != nil, "a master error / a lost connection is never reported as a clean end")
		}
		vhQuiesce()
		// every attempt announces checksum awareness on ITS connection before it requests the dump
		calls := env.calls()
		nset := 0
		for i, c := range calls {
			if c.kind == 0 {
				nset++
				vhAssert(c.query == "SET @master_binlog_checksum=@@global.binlog_checksum", "checksum awareness is announced with the documented statement")
			}
			if c.kind == 1 {
				vhAssert(i > 0 && calls[i-1].kind == 0, "every dump request is preceded by the checksum announcement of the same attempt")
			}
		}
		vhAssert(nset == a+1, "exactly one checksum announcement per attempt")
		if fault == 3 {
			vhAssert(err != nil, "a failed dump request makes Stream return an error")
			vhAssert(len(requested) == before, "a failed dump request is not served")
		} else {
			vhAssert(len(requested) == before+1, "exactly one dump request per attempt")
			vhAssert(int64(requested[before]) == ghostBefore.Offset, "the dump request carries the offset of the stored resume position")
			vhAssert(files[before] == ghostBefore.Filename, "the dump request names the file of the stored resume position")
		}
		kept := s.binlogPosition()
		if len(accepted) == 2 {
			// the boundary after the second transaction moves into the new file once the ROTATE behind it
			// has been consumed: certainly when the handler has seen the new file's transaction or the
			// stream ran to its end, possibly when the caller cancelled right after the second transaction
			moved := Position{Filename: newFile, Offset: 4}
			consumed := sawNewFile || fault == 1 || fault == 2
			if consumed || (ctx.Err() != nil && kept.Filename == newFile) {
				ghost = moved
			}
		}
		vhAssert(kept.Filename == ghost.Filename && kept.Offset == ghost.Offset, "the stored position is the boundary after the last accepted transaction (moved by a consumed rotation)")
	}
	vhAssert(requested[0] == 100 && files[0] == oldFile, "first attempt starts at the configured position")
	vhAssert(len(accepted) <= 3, "no transaction is accepted twice")
	vhAssert(len(accepted) >= 3, "no transaction is lost over the attempts")
	vhAssert(accepted[0] == 200 && accepted[1] == 300 && accepted[2] == 400, "over all attempts every transaction is accepted exactly once, in order")
	vhCover("attempts")
}

// VH_C17_Conn: the validity gate seen from the connection: after the fake ROTATE, the format
// description and npk autocommitted statements the master sends a packet whose payload is an
// ARBITRARY buffer of n bytes that fails the validity test (n < 19: shorter than an event header,
// down to an empty payload), followed by one more well-formed statement. The packet travels the
// real path -- reader goroutine, readBinlogEvent, hand-off, parseEvents -- so nothing on that path
// may read a field of it before the test: Stream returns an error (no panic in any goroutine),
// exactly the npk earlier transactions are delivered, the position is the last accepted boundary,
// Error() returns and no goroutine or connection is left behind.
func VH_C17_Conn(n, npk int) {
	sc := &vScript{end: endEOF}
	sc.packets = append(sc.packets, vwRotate("bin.000001", 4), vwFDE())
	for i := 0; i < npk; i++ {
		sc.packets = append(sc.packets, vwQuery("create table t"+string(rune('0'+i))+" (a int)", uint32(200+100*i)))
	}
	bad := vhBytes(n)
	if n >= 19 {
		l := uint32(bad[9]) | uint32(bad[10])<<8 | uint32(bad[11])<<16 | uint32(bad[12])<<24
		vhAssume(l != uint32(n))
	}
	sc.packets = append(sc.packets, bad)
	sc.packets = append(sc.packets, vwQuery("create table late (a int)", 900))
	env := vhStartEnv(sc)
	defer env.stop()
	s, _ := NewStreamer(env.dsn(), 7, &vMapper{})
	s.SetBinlogPosition(Position{Filename: "bin.000001", Offset: 4})
	delivered := 0
	err := s.Stream(newVCtx(), func(t *Transaction) error {
		delivered++
		return nil
	})
	vhAssert(err != nil, "a packet that fails the validity test ends the stream with an error")
	vhAssert(delivered == npk, "exactly the transactions before the malformed packet are delivered")
	want := Position{Filename: "bin.000001", Offset: 4}
	if npk > 0 {
		want.Offset = int64(200 + 100*(npk-1))
	}
	pos := s.binlogPosition()
	vhAssert(pos.Filename == want.Filename && pos.Offset == want.Offset, "resume position at the last accepted commit boundary")
	_ = s.Error() // must return
	live := vhQuiesce()
	vhAssert(live == 0, "no goroutine started by the library remains after Stream returned")
	created, closedN := env.connStats()
	vhAssert(created == 1 && closedN == 1, "the connection to the master is closed")
	vhCover("conn-gate")
}
