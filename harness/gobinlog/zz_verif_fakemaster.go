//go:build verif

package gobinlog

// Environment of the Stream harnesses.  Under the engine: the model
// connection.  Natively: a fake MySQL master on 127.0.0.1 (protocol 10,
// mysql_native_password, OK to any login and to COM_QUERY, the scripted
// packets after COM_BINLOG_DUMP), so that replays go through the real driver.

import (
	"context"
	"fmt"
	"io"
	"net"
	"runtime"
	"strings"
	"sync"
	"time"

	"github.com/Breeze0806/mysql"
)

type vEnv struct {
	sc *vScript
	fm *vFakeMaster
}

var vhLibBase int

var vhPipeOnce sync.Once
var vhPipeMu sync.Mutex
var vhPipeMaster *vFakeMaster

func vhStartEnv(sc *vScript) *vEnv {
	vCurScript = sc
	vCurConns = nil
	if !vhEngine() {
		vhLibBase = vhLibraryGoroutines() // left-overs of earlier tapes in this process
	}
	if vhEngine() {
		return &vEnv{sc: sc}
	}
	return &vEnv{sc: sc, fm: startFakeMaster(sc)}
}

func (e *vEnv) dsn() string {
	if e.fm == nil {
		return "model"
	}
	if e.sc.failFactory {
		return "u:p@tcp(127.0.0.1:1)/db?timeout=1s" // nothing listens there
	}
	if e.sc.pipe {
		// in-memory transport (net.Pipe): a write to a closed peer fails at once, which is how a
		// failing dump request is staged deterministically
		vhPipeOnce.Do(func() {
			mysql.RegisterDialContext("vhpipe", func(ctx context.Context, addr string) (net.Conn, error) {
				vhPipeMu.Lock()
				fm := vhPipeMaster
				vhPipeMu.Unlock()
				if fm == nil {
					return nil, fmt.Errorf("no fake master")
				}
				c1, c2 := vhMemPipe()
				fm.mu.Lock()
				fm.conns = append(fm.conns, c2)
				fm.mu.Unlock()
				go fm.serve(c2)
				return c1, nil
			})
		})
		vhPipeMu.Lock()
		vhPipeMaster = e.fm
		vhPipeMu.Unlock()
		return "u:p@vhpipe(fake)/db"
	}
	return "u:p@tcp(" + e.fm.addr + ")/db"
}

func (e *vEnv) stop() {
	if e.fm != nil {
		e.fm.stop()
	}
}

// calls: the handshake commands the master saw, in order (Exec and NoticeDump only).
func (e *vEnv) calls() []vCall {
	if e.fm != nil {
		e.fm.mu.Lock()
		defer e.fm.mu.Unlock()
		return append([]vCall{}, e.fm.log...)
	}
	var out []vCall
	for _, c := range vCurConns {
		for _, l := range c.log {
			if l.kind == 0 || l.kind == 1 {
				out = append(out, l)
			}
		}
	}
	return out
}

// connStats: connections created and connections closed by the client.
func (e *vEnv) connStats() (created, closedN int) {
	if e.fm != nil {
		deadline := time.Now().Add(2 * time.Second)
		for {
			e.fm.mu.Lock()
			created, closedN = e.fm.accepted, e.fm.closedByClient
			e.fm.mu.Unlock()
			if closedN >= created || time.Now().After(deadline) {
				return
			}
			time.Sleep(5 * time.Millisecond)
		}
	}
	for _, c := range vCurConns {
		created++
		if c.isDown {
			closedN++
		}
	}
	return
}

// vhQuiesce (native): waits until no goroutine started by the library is left
// (up to 1.5 s) and returns how many remain.
func vhQuiesce() int {
	deadline := time.Now().Add(1500 * time.Millisecond)
	for {
		n := vhLibraryGoroutines() - vhLibBase
		if n <= 0 {
			return 0
		}
		if time.Now().After(deadline) {
			return n
		}
		time.Sleep(5 * time.Millisecond)
	}
}

func vhLibraryGoroutines() int {
	buf := make([]byte, 1<<20)
	buf = buf[:runtime.Stack(buf, true)]
	n := 0
	for _, g := range strings.Split(string(buf), "\n\n") {
		if strings.Contains(g, "gobinlog.(*slaveConnection).startDumpFromBinlogPosition.func1") {
			n++
		}
	}
	return n
}

// ---- fake master ----

type vFakeMaster struct {
	sc             *vScript
	ln             net.Listener
	addr           string
	mu             sync.Mutex
	log            []vCall
	accepted       int
	closedByClient int
	conns          []net.Conn
}

func startFakeMaster(sc *vScript) *vFakeMaster {
	ln, err := net.Listen("tcp", "127.0.0.1:0")
	if err != nil {
		panic(err)
	}
	fm := &vFakeMaster{sc: sc, ln: ln, addr: ln.Addr().String()}
	go func() {
		for {
			c, err := ln.Accept()
			if err != nil {
				return
			}
			fm.mu.Lock()
			fm.conns = append(fm.conns, c)
			fm.mu.Unlock()
			go fm.serve(c)
		}
	}()
	return fm
}

func (fm *vFakeMaster) stop() {
	fm.ln.Close()
	fm.mu.Lock()
	for _, c := range fm.conns {
		c.Close()
	}
	fm.mu.Unlock()
}

func fmWrite(c net.Conn, seq byte, payload []byte) error {
	h := []byte{byte(len(payload)), byte(len(payload) >> 8), byte(len(payload) >> 16), seq}
	_, err := c.Write(append(h, payload...))
	return err
}

func fmRead(c net.Conn) (byte, []byte, error) {
	h := make([]byte, 4)
	if _, err := io.ReadFull(c, h); err != nil {
		return 0, nil, err
	}
	n := int(h[0]) | int(h[1])<<8 | int(h[2])<<16
	p := make([]byte, n)
	if _, err := io.ReadFull(c, p); err != nil {
		return 0, nil, err
	}
	return h[3], p, nil
}

var fmOK = []byte{0x00, 0x00, 0x00, 0x02, 0x00, 0x00, 0x00}

func (fm *vFakeMaster) serve(c net.Conn) {
	// a connection counts once the library has used it (first command): a dial
	// that the driver abandons during its own handshake never reaches the library
	used := false
	defer func() {
		fm.mu.Lock()
		if used {
			fm.closedByClient++
		}
		fm.mu.Unlock()
		c.Close()
	}()
	if fm.sc.slowDial {
		// accept and stay silent until the client gives up
		buf := make([]byte, 1)
		c.Read(buf)
		return
	}
	// handshake v10
	hs := []byte{10}
	hs = append(hs, "5.7.0-fake\x00"...)
	hs = append(hs, 1, 0, 0, 0)            // connection id
	hs = append(hs, "abcdefgh"...)         // auth data part 1
	hs = append(hs, 0)                     // filler
	hs = append(hs, 0xff, 0xf7)            // capabilities (lower): protocol 41, secure connection, ...
	hs = append(hs, 33)                    // charset
	hs = append(hs, 2, 0)                  // status
	hs = append(hs, 0xff, 0x81)            // capabilities (upper): plugin auth
	hs = append(hs, 21)                    // auth data length
	hs = append(hs, make([]byte, 10)...)   // reserved
	hs = append(hs, "ijklmnopqrst\x00"...) // auth data part 2
	hs = append(hs, "mysql_native_password\x00"...)
	if fmWrite(c, 0, hs) != nil {
		return
	}
	if _, _, err := fmRead(c); err != nil { // handshake response
		return
	}
	if fmWrite(c, 2, fmOK) != nil {
		return
	}
	for {
		_, p, err := fmRead(c)
		if err != nil || len(p) == 0 {
			return
		}
		if !used {
			used = true
			fm.mu.Lock()
			fm.accepted++
			fm.mu.Unlock()
		}
		switch p[0] {
		case 0x01: // COM_QUIT
			return
		case 0x03: // COM_QUERY
			fm.mu.Lock()
			fm.log = append(fm.log, vCall{kind: 0, query: string(p[1:])})
			fm.mu.Unlock()
			if fm.sc.failExec {
				fmWrite(c, 1, append([]byte{0xff, byte(fm.sc.execCode), byte(fm.sc.execCode >> 8), '#', '4', '2', '0', '0', '0'}, "scripted failure"...))
				continue
			}
			if fmWrite(c, 1, fmOK) != nil {
				return
			}
			if fm.sc.failNotice {
				return // the master goes away before the dump request: the client's write fails (pipe transport)
			}
		case 0x12: // COM_BINLOG_DUMP
			if len(p) < 11 {
				return
			}
			call := vCall{kind: 1}
			call.offset = uint32(p[1]) | uint32(p[2])<<8 | uint32(p[3])<<16 | uint32(p[4])<<24
			call.flags = uint16(p[5]) | uint16(p[6])<<8
			call.serverID = uint32(p[7]) | uint32(p[8])<<8 | uint32(p[9])<<16 | uint32(p[10])<<24
			call.file = string(p[11:])
			fm.mu.Lock()
			fm.log = append(fm.log, call)
			fm.mu.Unlock()
			pk := fm.sc.packets
			if fm.sc.serve != nil {
				pk = fm.sc.serve(call.file, call.offset)
			}
			seq := byte(1)
			for i, ev := range pk {
				vhEnvWait(evPacket + i)
				if fmWrite(c, seq, append([]byte{0}, ev...)) != nil {
					return
				}
				vhEnvDone(evPacket + i)
				seq++
				if !fm.sc.ahead {
					time.Sleep(2 * time.Millisecond)
				}
			}
			if fm.sc.end != endIdle {
				vhEnvWait(evEnd)
			}
			switch fm.sc.end {
			case endEOF:
				fmWrite(c, seq, []byte{0xfe, 0, 0, 2, 0})
				vhEnvDone(evEnd)
			case endERR:
				b := []byte{0xff, byte(fm.sc.errCode), byte(fm.sc.errCode >> 8), '#', 'H', 'Y', '0', '0', '0'}
				fmWrite(c, seq, append(b, fm.sc.errMsg...))
				vhEnvDone(evEnd)
			case endLost:
				time.Sleep(5 * time.Millisecond)
				c.Close()
				vhEnvDone(evEnd)
				return // closes the socket
			}
			// keep the connection open until the client goes away
			io.Copy(io.Discard, c)
			return
		default:
			return
		}
	}
}

// ---- in-memory transport with buffering (like a socket; net.Pipe is synchronous and would make
// the driver's COM_QUIT block while the master is still writing) ----

type vhMemQueue struct {
	mu     sync.Mutex
	cond   *sync.Cond
	buf    []byte
	closed bool // no more data will be written (writer side closed) or reader went away
}

type vhMemConn struct {
	rd, wr *vhMemQueue
	once   sync.Once
}

func vhMemPipe() (net.Conn, net.Conn) {
	a, b := &vhMemQueue{}, &vhMemQueue{}
	a.cond, b.cond = sync.NewCond(&a.mu), sync.NewCond(&b.mu)
	return &vhMemConn{rd: a, wr: b}, &vhMemConn{rd: b, wr: a}
}

func (c *vhMemConn) Read(p []byte) (int, error) {
	q := c.rd
	q.mu.Lock()
	defer q.mu.Unlock()
	for len(q.buf) == 0 && !q.closed {
		q.cond.Wait()
	}
	if len(q.buf) == 0 {
		return 0, io.EOF
	}
	n := copy(p, q.buf)
	q.buf = q.buf[n:]
	return n, nil
}

func (c *vhMemConn) Write(p []byte) (int, error) {
	q := c.wr
	q.mu.Lock()
	defer q.mu.Unlock()
	if q.closed {
		return 0, io.ErrClosedPipe // the peer has gone away: the write fails at once
	}
	q.buf = append(q.buf, p...)
	q.cond.Broadcast()
	return len(p), nil
}

func (c *vhMemConn) Close() error {
	c.once.Do(func() {
		for _, q := range []*vhMemQueue{c.rd, c.wr} {
			q.mu.Lock()
			q.closed = true
			q.cond.Broadcast()
			q.mu.Unlock()
		}
	})
	return nil
}

type vhMemAddr struct{}

func (vhMemAddr) Network() string { return "vhpipe" }
func (vhMemAddr) String() string  { return "fake" }

func (c *vhMemConn) LocalAddr() net.Addr                { return vhMemAddr{} }
func (c *vhMemConn) RemoteAddr() net.Addr               { return vhMemAddr{} }
func (c *vhMemConn) SetDeadline(t time.Time) error      { return nil }
func (c *vhMemConn) SetReadDeadline(t time.Time) error  { return nil }
func (c *vhMemConn) SetWriteDeadline(t time.Time) error { return nil }
