//go:build verif

package gobinlog

import (
	"context"
	"errors"

	"github.com/Breeze0806/gobinlog/replication"
)

func init() {
	vhRegister("VH_C04_Exit", func(p []int) { VH_C04_Exit(p[0], p[1]) })
	vhRegister("VH_C04_ExitIns", func(p []int) { VH_C04_ExitIns(p[0], p[1], p[2]) })
	vhRegister("VH_C03_Resume", func(p []int) { VH_C03_Resume(p[0]) })
	vhRegister("VH_C17_Gate", func(p []int) { VH_C17_Gate(p[0]) })
	vhRegister("VH_C17_Real", func(p []int) { VH_C17_Real(p[0], p[1]) })
	vhRegister("VH_C03_RealOffsets", func(p []int) { VH_C03_RealOffsets() })
	vhRegister("VH_C03_RealRotate", func(p []int) { VH_C03_RealRotate(p[0]) })
	vhRegister("VH_C15_Cache", func(p []int) { VH_C15_Cache(p[0]) })
	vhRegister("VH_C15_Recount", func(p []int) { VH_C15_Recount(p[0]) })
}

// fault kinds of VH_C04_Exit
const (
	ftHandler         = iota // handler rejects a transaction
	ftMapperErr              // table lookup fails
	ftMapperCols             // mapper table has a different column count
	ftInvalid                // invalid event injected
	ftUnsupported            // RAND / INTVAR / ROWS_QUERY event injected
	ftDecode                 // an accessor of an event fails
	ftClosed                 // event channel closed early (connection lost / EOF)
	ftCancel                 // context cancelled
	ftCancelInHandler        // the handler accepts a transaction and cancels the context while doing so
	ftRejectAndCancel        // the context is cancelled while the handler holds a transaction, and the handler rejects it
	ftKinds
)

var errHandler = errors.New("handler rejects")

// vhBoundary replays the consumed prefix evs[0:n] of a history and returns the
// resume boundary: the end label of the last accepted transaction, moved by
// every rotation consumed after it. accepted = number of accepted deliveries.
func vhBoundary(h *vHist, n int, accepted int) Position {
	pos := h.start
	seenFDE := false
	acc := 0
	for i := 0; i < n && i < len(h.evs); i++ {
		e := h.evs[i]
		if !e.valid {
			break
		}
		if e.kind == kFDE {
			seenFDE = true
			continue
		}
		if e.kind == kRotate && seenFDE {
			pos = Position{Filename: e.rotName, Offset: e.rotPos}
			continue
		}
		// a delivery happens at this event?
		if acc < accepted && acc < len(h.exp) && e.idx == h.exp[acc].commitIdx {
			pos = h.exp[acc].next
			acc++
		}
	}
	return pos
}

// VH_C04_Exit: U units and one fault of the given kind at an arbitrary point.
var vExitIns int

// VH_C04_ExitIns: as VH_C04_Exit, with `ins` unknown statements (SAVEPOINT x) inserted at arbitrary
// positions of the history, also inside a transaction.
func VH_C04_ExitIns(U, fault, ins int) {
	vExitIns, vIgnFixed = ins, true // the inserted event is an unknown statement (SAVEPOINT)
	VH_C04_Exit(U, fault)
	vExitIns, vIgnFixed = 0, false
}

func VH_C04_Exit(U, fault int) {
	h := vhGenHistory(U, vExitIns, false)
	m := &vMapper{ncols: map[string]int{}}
	ctx := newVCtx()
	n := len(h.evs)
	var at int
	if fault == ftInvalid {
		at = vhChoose(n + 1) // a malformed packet can also be the very first one, or sit between the fake ROTATE and the FDE
	} else {
		at = 2 + vhChoose(n-1) // fault position among the events after the FDE (n = at the very end)
	}
	rejectAt := -1
	cancelAt := -1
	switch fault {
	case ftCancelInHandler:
		vhAssume(len(h.exp) > 0)
		cancelAt = vhChoose(len(h.exp))
	case ftHandler, ftRejectAndCancel:
		vhAssume(len(h.exp) > 0)
		rejectAt = vhChoose(len(h.exp))
	case ftMapperErr:
		m.failOn = h.tables[vhChoose(2)]
	case ftMapperCols:
		m.ncols[h.tables[vhChoose(2)]] = 2
	case ftInvalid, ftUnsupported:
		ev := &vEvent{valid: fault != ftInvalid, ghost: h.ghost, idx: -1, ts: 999, next: 7}
		if fault == ftUnsupported {
			ev.kind = []int{kRand, kIntVar, kRowsQuery}[vhChoose(3)]
		}
		h.evs = append(h.evs, nil)
		copy(h.evs[at+1:], h.evs[at:])
		h.evs[at] = ev
	case ftDecode:
		vhAssume(at < n)
		e := h.evs[at]
		switch e.kind {
		case kQuery:
			e.fail = []int{fQuery, fStrip}[vhChoose(2)]
		case kRotate:
			e.fail = fRotate
		case kTableMap:
			e.fail = fTableMap
		case kWrite, kUpdate, kDelete:
			e.fail = fRows
		case kFDE:
			e.fail = fFormat
		default:
			e.fail = fStrip
		}
	case ftClosed:
		h.evs = h.evs[:at]
	case ftCancel:
		// cancelled before the stream is parsed: every interleaving of the
		// two ready select cases is explored by the engine
	}
	s := newModelStreamer(h, m)
	ch := h.channel()
	if fault == ftCancel {
		ctx.cancel()
	}
	total := len(h.evs)
	accepted := 0
	calls := 0
	failed := false
	lastConsumed := 0
	s.sendTransaction = func(t *Transaction) error {
		vhAssert(!failed, "no transaction is delivered after a failure")
		vhAssert(calls < len(h.exp), "no transaction beyond the committed ones")
		vhCheckTran(h, calls, t, true)
		lastConsumed = total - len(ch)
		if calls == rejectAt {
			calls++
			failed = true
			if fault == ftRejectAndCancel {
				ctx.cancel()
			}
			return errHandler
		}
		if calls == cancelAt {
			ctx.cancel() // e.g. the application shuts down while it stores this transaction
		}
		calls++
		accepted++
		return nil
	}
	pos, err := s.parseEvents(ctx, ch)
	consumed := total - len(ch)
	_ = lastConsumed
	switch fault {
	case ftHandler, ftRejectAndCancel:
		vhAssert(err != nil, "a handler failure is reported")
	case ftClosed, ftCancel, ftCancelInHandler:
		vhAssert(err == nil, "end of stream / cancellation is not an error of the parser")
	case ftInvalid, ftUnsupported:
		vhAssert(err != nil, "an invalid or unsupported event ends the stream with an error")
	}
	if err != nil {
		vhCover("stopped-with-error")
	} else {
		vhCover("stopped-clean")
	}
	// the kept position is the commit boundary that follows the last accepted transaction
	n2 := consumed
	if err != nil {
		n2 = consumed - 1 // the event at which the stream failed was not processed
		if fault == ftHandler || fault == ftRejectAndCancel {
			n2 = consumed
		}
	}
	want := vhBoundary(h, n2, accepted)
	vhAssert(pos.Filename == want.Filename && pos.Offset == want.Offset, "kept position = commit boundary after the last accepted transaction")
	vhAssert(!h.ghost.touchedInvalid, "an invalid event is not touched beyond the validity test")
	vhObserve("accepted", uint64(accepted))
}

// VH_C17_Gate: an invalid event injected at every index of a history.
func VH_C17_Gate(U int) { VH_C04_Exit(U, ftInvalid) }

// VH_C03_RealOffsets: labels computed from REAL event headers with arbitrary 32-bit end offsets
// (files larger than 2 GiB included): rotate target, two autocommitted statements, an XID transaction.
func VH_C03_RealOffsets() {
	n1, n2, n3 := vhU32(), vhU32(), vhU32()
	start := vhU32()
	evs := []replication.BinlogEvent{
		replication.NewMysql56BinlogEvent(vwRotate("bin.000009", uint64(start))),
		replication.NewMysql56BinlogEvent(vwFDE()),
		replication.NewMysql56BinlogEvent(vwQuery("create table a (x int)", n1)),
		replication.NewMysql56BinlogEvent(vwQuery("BEGIN", 7)),
		replication.NewMysql56BinlogEvent(vwQuery("insert into a values (1)", 8)),
		replication.NewMysql56BinlogEvent(vwEv(16, n2, []byte{1, 0, 0, 0, 0, 0, 0, 0})),
		replication.NewMysql56BinlogEvent(vwQuery("drop table a", n3)),
	}
	ch := make(chan replication.BinlogEvent, len(evs))
	for _, e := range evs {
		ch <- e
	}
	close(ch)
	s := &Streamer{tableMapper: &vMapper{}}
	s.SetBinlogPosition(Position{Filename: "bin.000009", Offset: int64(start)})
	want := []int64{int64(start), int64(n1), int64(n2), int64(n3)}
	k := 0
	s.sendTransaction = func(t *Transaction) error {
		vhAssert(k < 3, "three transactions")
		vhAssert(t.NowPosition.Filename == "bin.000009" && t.NowPosition.Offset == want[k], "start label = previous end label (exact 32-bit offset)")
		vhAssert(t.NextPosition.Filename == "bin.000009" && t.NextPosition.Offset == want[k+1], "end label = end offset of the commit event (exact 32-bit offset)")
		k++
		return nil
	}
	pos, err := s.parseEvents(context.Background(), ch)
	vhAssert(err == nil && k == 3, "history parses")
	vhAssert(pos.Offset == int64(n3), "kept position is the last end label")
	vhCover("real-offsets")
}

// VH_C03_RealRotate: REAL events with (crc = 1) or without CRC32 checksums (four arbitrary trailing
// bytes per event, announced by the format description): a statement, a real ROTATE to another
// file at an arbitrary 64-bit position, the new file's format description, two more statements.
// Labels after the rotation name exactly the rotation target (no checksum bytes in the file name)
// and chain; the kept position is the last end label.
func VH_C03_RealRotate(crc int) {
	tail := func(b []byte) []byte {
		if crc == 1 {
			return append(b, vhBytes(4)...)
		}
		return b
	}
	fde := func() []byte {
		body := []byte{4, 0}
		ver := make([]byte, 50)
		copy(ver, "5.7.0")
		body = append(body, ver...)
		body = vwU32(body, 0)
		body = append(body, 19)
		hs := make([]byte, 40)
		hs[1], hs[3], hs[14] = 13, 8, 84
		body = append(body, hs...)
		body = append(body, byte(crc))
		body = append(body, 0, 0, 0, 0)
		return vwEv(15, 0, body)
	}
	query := func(sql string, next uint32) []byte {
		var body []byte
		body = vwU32(body, 1)
		body = vwU32(body, 0)
		body = append(body, 2)
		body = append(body, 0, 0, 0, 0)
		body = append(body, 'd', 'b', 0)
		body = append(body, sql...)
		return vwEv(2, next, tail(body))
	}
	n1, n2, n3 := vhU32(), vhU32(), vhU32()
	rpos := vhU64()
	vhAssume(rpos < 1<<62)
	var rot []byte
	rot = vwU32(rot, uint32(rpos))
	rot = vwU32(rot, uint32(rpos>>32))
	rot = append(rot, "bin.000010"...)
	evs := []replication.BinlogEvent{
		replication.NewMysql56BinlogEvent(vwRotate("bin.000009", 4)),
		replication.NewMysql56BinlogEvent(fde()),
		replication.NewMysql56BinlogEvent(query("create table a (x int)", n1)),
		replication.NewMysql56BinlogEvent(vwEv(4, vhU32(), tail(rot))),
		replication.NewMysql56BinlogEvent(fde()),
		replication.NewMysql56BinlogEvent(query("create table b (x int)", n2)),
		replication.NewMysql56BinlogEvent(query("drop table a", n3)),
	}
	ch := make(chan replication.BinlogEvent, len(evs))
	for _, e := range evs {
		ch <- e
	}
	close(ch)
	s := &Streamer{tableMapper: &vMapper{}}
	s.SetBinlogPosition(Position{Filename: "bin.000009", Offset: 4})
	type lab struct {
		file string
		off  int64
	}
	want := []lab{{"bin.000009", 4}, {"bin.000009", int64(n1)}, {"bin.000010", int64(rpos)}, {"bin.000010", int64(n2)}, {"bin.000010", int64(n3)}}
	from := []int{0, 2, 3}
	k := 0
	s.sendTransaction = func(t *Transaction) error {
		vhAssert(k < 3, "three transactions")
		a, b := want[from[k]], want[from[k]+1]
		vhAssert(t.NowPosition.Filename == a.file && t.NowPosition.Offset == a.off, "start label = previous end label or the rotation target, file name exact")
		vhAssert(t.NextPosition.Filename == b.file && t.NextPosition.Offset == b.off, "end label = end offset of the commit event in the current file, file name exact")
		k++
		return nil
	}
	pos, err := s.parseEvents(context.Background(), ch)
	vhAssert(err == nil && k == 3, "history parses")
	vhAssert(pos.Filename == "bin.000010" && pos.Offset == int64(n3), "kept position is the last end label")
	vhCover("real-rotate")
}

// VH_C17_Real: the REAL event type on an arbitrary buffer of n bytes that fails the validity test
// (shorter than a header, or length field != buffer length), fed to the real parseEvents as packet
// number `where` of a dump (0: first, 1: after the fake ROTATE, 2: after the format description):
// the stream ends with an error, without a panic, without a delivery, position unchanged.
func VH_C17_Real(n, where int) {
	buf := vhBytes(n)
	if n >= 19 {
		l := uint32(buf[9]) | uint32(buf[10])<<8 | uint32(buf[11])<<16 | uint32(buf[12])<<24
		vhAssume(l != uint32(n))
	}
	var evs []replication.BinlogEvent
	if where >= 1 {
		evs = append(evs, replication.NewMysql56BinlogEvent(vwRotate("bin.000001", 4)))
	}
	if where >= 2 {
		evs = append(evs, replication.NewMysql56BinlogEvent(vwFDE()))
	}
	evs = append(evs, replication.NewMysql56BinlogEvent(buf))
	evs = append(evs, replication.NewMysql56BinlogEvent(vwQuery("create table t (a int)", 300)))
	ch := make(chan replication.BinlogEvent, len(evs))
	for _, e := range evs {
		ch <- e
	}
	close(ch)
	s := &Streamer{tableMapper: &vMapper{}}
	start := Position{Filename: "bin.000001", Offset: 4}
	s.SetBinlogPosition(start)
	calls := 0
	s.sendTransaction = func(t *Transaction) error {
		calls++
		return nil
	}
	pos, err := s.parseEvents(context.Background(), ch)
	vhAssert(err != nil, "a packet that fails the validity test ends the stream with an error")
	vhAssert(calls == 0, "nothing is delivered at or after a malformed packet")
	vhAssert(pos.Filename == start.Filename && pos.Offset == start.Offset, "resume position still at the last accepted commit boundary")
	vhCover("real-gate")
}

// VH_C03_Resume: run the parser on a history, pick a delivered transaction k and run
// a fresh streamer on what a master serves from its end label.
func VH_C03_Resume(U int) {
	h := vhGenHistory(U, 0, true)
	vhAssume(len(h.exp) > 0)
	s := newModelStreamer(h, &vMapper{})
	var got []*Transaction
	s.sendTransaction = func(t *Transaction) error {
		got = append(got, t)
		return nil
	}
	_, err := s.parseEvents(context.Background(), h.channel())
	vhAssert(err == nil && len(got) == len(h.exp), "first run delivers every transaction")
	k := vhChoose(len(got))
	resume := got[k].NextPosition
	// the master serves: fake ROTATE naming the file, FDE, then everything after commit k
	cut := h.posOf(h.exp[k].commitIdx) + 1
	h2 := &vHist{ghost: &vGhost{}, start: resume, tables: h.tables}
	h2.evs = append(h2.evs, &vEvent{valid: true, kind: kRotate, rotName: resume.Filename, rotPos: resume.Offset, idx: -1},
		&vEvent{valid: true, kind: kFDE, idx: -1})
	h2.evs = append(h2.evs, h.evs[cut:]...)
	s2 := newModelStreamer(h2, &vMapper{})
	j := k + 1
	s2.sendTransaction = func(t *Transaction) error {
		vhAssert(j < len(got), "resuming does not deliver more than the remaining transactions")
		w := got[j]
		vhAssert(t.NowPosition.Filename == w.NowPosition.Filename && t.NowPosition.Offset == w.NowPosition.Offset, "resumed start label identical")
		vhAssert(t.NextPosition.Filename == w.NextPosition.Filename && t.NextPosition.Offset == w.NextPosition.Offset, "resumed end label identical")
		vhAssert(t.Timestamp == w.Timestamp && len(t.Events) == len(w.Events), "resumed transaction identical")
		for i := range w.Events {
			vhAssert(t.Events[i].Type == w.Events[i].Type && t.Events[i].Timestamp == w.Events[i].Timestamp, "resumed changes identical")
		}
		j++
		return nil
	}
	_, err = s2.parseEvents(context.Background(), h2.channel())
	vhAssert(err == nil, "resumed run parses")
	vhAssert(j == len(got), "resuming at an end label yields exactly the remaining transactions")
	vhCover("resume")
}

// VH_C15_Cache: table ids 10 and 10 + 2^32, re-announcements with changed column types,
// inside and across transactions; the mapper names the columns by ordinal.
func VH_C15_Cache(shape int) {
	// the second table's id equals the first one's modulo 2^32 (6-byte table ids)
	const idB = uint64(10) + 1<<32
	h := &vHist{ghost: &vGhost{}, start: Position{Filename: "f0", Offset: 4}, tables: []string{"ta", "tb"}}
	g := &vGen{h: h}
	g.file, g.off = "f0", 4
	g.add(&vEvent{kind: kRotate, rotName: "f0", rotPos: 4})
	g.add(&vEvent{kind: kFDE})
	m := &vMapper{ncols: map[string]int{}}
	tmOf := func(name string, typ byte) *replication.TableMap {
		tm := vTM(name)
		tm.Types = []byte{typ}
		if typ != replication.TypeVarchar {
			tm.Metadata = []uint16{0}
		}
		return tm
	}
	type want struct {
		table string
		typ   byte
	}
	var wants []want
	cur := map[uint64]want{}
	announce := func(id uint64, name string, typ byte) {
		g.add(&vEvent{kind: kTableMap, tableID: id, tm: tmOf(name, typ)})
		cur[id] = want{name, typ}
	}
	write := func(id uint64) {
		r := replication.Rows{DataColumns: replication.NewServerBitmap(1)}
		r.DataColumns.Set(0, true)
		row := replication.Row{NullColumns: replication.NewServerBitmap(1)}
		if cur[id].typ == replication.TypeVarchar {
			row.Data = []byte{1, vhU8()}
		} else {
			row.Data = []byte{vhU8()}
		}
		r.Rows = []replication.Row{row}
		i := g.add(&vEvent{kind: kWrite, tableID: id, rows: r})
		g.deliver([]int{i}, i)
		wants = append(wants, cur[id])
	}
	inTx := vhChoose(2) == 1
	if inTx {
		g.add(&vEvent{kind: kQuery, sql: "BEGIN"})
	}
	announce(10, "ta", replication.TypeVarchar)
	if shape >= 1 {
		announce(idB, "tb", replication.TypeTiny)
	}
	nops := 2 + shape
	first := len(h.exp)
	for op := 0; op < nops; op++ {
		switch vhChoose(4) {
		case 0:
			write(10)
		case 1:
			if shape >= 1 {
				write(idB)
			} else {
				write(10)
			}
		case 2: // re-announce id 10 with a different column type
			announce(10, "ta", []byte{replication.TypeTiny, replication.TypeVarchar, replication.TypeYear}[vhChoose(3)])
		case 3: // re-announce unchanged
			announce(10, "ta", cur[10].typ)
		}
	}
	if inTx {
		// all writes arrive in one transaction at COMMIT
		var all []int
		for _, ex := range h.exp[first:] {
			all = append(all, ex.changes...)
		}
		h.exp = h.exp[:first]
		g.off = 4
		g.deliver(all, g.add(&vEvent{kind: kQuery, sql: "COMMIT"}))
	}
	s := newModelStreamer(h, m)
	wi := 0
	calls := 0
	s.sendTransaction = func(t *Transaction) error {
		calls++
		for _, ev := range t.Events {
			vhAssert(wi < len(wants), "no extra change")
			w := wants[wi]
			wi++
			vhAssert(ev.Table.DbName == "db" && ev.Table.TableName == w.table, "rows attributed to the table announced for their table id")
			vhAssert(len(ev.RowValues) == 1 && len(ev.RowValues[0].Columns) == 1, "one row, one column")
			col := ev.RowValues[0].Columns[0]
			vhAssert(col.Filed == w.table+"_c0", "column name comes from the mapper by ordinal")
			vhAssert(col.Type == ColumnType(w.typ), "decoded with the column types of the most recent table map for the id")
			vhAssert(col.Data != nil && len(col.Data) >= 1, "value present")
		}
		return nil
	}
	_, err := s.parseEvents(context.Background(), h.channel())
	vhAssert(err == nil, "parses")
	vhAssert(wi == len(wants), "every row change delivered")
	// the mapper is consulted with the announced (db, table), once per table id
	seen := map[string]int{}
	for _, l := range m.lookups {
		vhAssert(l.DbName == "db", "mapper consulted with the announced database")
		seen[l.TableName]++
	}
	vhAssert(seen["ta"] == 1, "table ta looked up once")
	if shape >= 1 {
		vhAssert(seen["tb"] == 1, "table tb looked up once")
	}
	vhCover("cache")
}

// VH_C15_Recount: the mapper's table has m columns and the first announcement of its id agrees; the
// id is then RE-ANNOUNCED with a different number of columns (m-1 or m+1: the table was altered on
// the master) and a rows event of any kind arrives under the new table map. Its cells can no
// longer be attributed to the mapper's columns by ordinal: the stream ends with an error, what
// was complete before is delivered unchanged and nothing of the mismatching event is delivered.
func VH_C15_Recount(m int) {
	h := &vHist{ghost: &vGhost{}, start: Position{Filename: "f0", Offset: 4}, tables: []string{"ta", "tb"}}
	g := &vGen{h: h}
	g.file, g.off = "f0", 4
	g.add(&vEvent{kind: kRotate, rotName: "f0", rotPos: 4})
	g.add(&vEvent{kind: kFDE})
	mp := &vMapper{ncols: map[string]int{"ta": m}}
	tmN := func(n int) *replication.TableMap {
		tm := vTM("ta")
		tm.Types = make([]byte, n)
		tm.Metadata = make([]uint16, n)
		for i := range tm.Types {
			tm.Types[i] = replication.TypeTiny
		}
		tm.CanBeNull = replication.NewServerBitmap(n)
		return tm
	}
	rowsN := func(kind, n int) replication.Rows {
		r := replication.Rows{}
		row := replication.Row{}
		if kind == kUpdate || kind == kDelete {
			r.IdentifyColumns = replication.NewServerBitmap(n)
			row.NullIdentifyColumns = replication.NewServerBitmap(n)
			for c := 0; c < n; c++ {
				r.IdentifyColumns.Set(c, true)
			}
			row.Identify = make([]byte, n) // concrete cells: the values are not the subject here
		}
		if kind == kWrite || kind == kUpdate {
			r.DataColumns = replication.NewServerBitmap(n)
			row.NullColumns = replication.NewServerBitmap(n)
			for c := 0; c < n; c++ {
				r.DataColumns.Set(c, true)
			}
			row.Data = make([]byte, n)
		}
		r.Rows = []replication.Row{row}
		return r
	}
	inTx := vhChoose(2) == 1
	if inTx {
		g.add(&vEvent{kind: kQuery, sql: "BEGIN"})
	}
	g.add(&vEvent{kind: kTableMap, tableID: 10, tm: tmN(m)})
	before := 0
	if vhChoose(2) == 1 {
		k := []int{kWrite, kUpdate, kDelete}[vhChoose(3)]
		i := g.add(&vEvent{kind: k, tableID: 10, rows: rowsN(k, m)})
		if !inTx {
			g.deliver([]int{i}, i)
			before = 1
		}
	}
	n := m + 1
	if m > 1 && vhChoose(2) == 1 {
		n = m - 1
	}
	g.add(&vEvent{kind: kTableMap, tableID: 10, tm: tmN(n)})
	k := []int{kWrite, kUpdate, kDelete}[vhChoose(3)]
	g.add(&vEvent{kind: k, tableID: 10, rows: rowsN(k, n)})
	if inTx {
		g.add(&vEvent{kind: kQuery, sql: "COMMIT"})
	}
	s := newModelStreamer(h, mp)
	calls := 0
	s.sendTransaction = func(t *Transaction) error {
		calls++
		vhAssert(calls <= before, "nothing is delivered from the event whose column count disagrees with the mapper's table")
		for _, ev := range t.Events {
			vhAssert(len(ev.RowValues)+len(ev.RowIdentifies) >= 1, "a row")
			for _, rv := range ev.RowValues {
				vhAssert(len(rv.Columns) == m, "delivered rows have the mapper's column count")
			}
			for _, rv := range ev.RowIdentifies {
				vhAssert(len(rv.Columns) == m, "delivered rows have the mapper's column count")
			}
		}
		return nil
	}
	_, err := s.parseEvents(context.Background(), h.channel())
	vhAssert(err != nil, "a rows event whose column count differs from the mapper's table ends the stream with an error")
	vhAssert(calls == before, "transactions completed before the mismatch are delivered")
	vhCover("recount")
}
