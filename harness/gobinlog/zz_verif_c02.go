//go:build verif

package gobinlog

import (
	"context"
	"errors"

	"github.com/Breeze0806/gobinlog/replication"
)

func init() {
	vhRegister("VH_C02_Grouping", func(p []int) { VH_C02_Grouping(p[0], p[1]) })
	vhRegister("VH_C02_Category", func(p []int) { VH_C02_Category(p[0], p[1]) })
	vhRegister("VH_C03_Labels", func(p []int) { VH_C03_Labels(p[0]) })
	vhRegister("VH_C03_OpenRotate", func(p []int) { VH_C03_OpenRotate() })
	vhRegister("VH_C08_Retain", func(p []int) { VH_C08_Retain(p[0]) })
}

var errNever = errors.New("never")

// checkDelivered compares one delivered transaction with the expectation read off the units.
func vhCheckTran(h *vHist, k int, t *Transaction, labels bool) {
	vhAssert(k < len(h.exp), "no transaction beyond the committed ones is delivered")
	ex := h.exp[k]
	vhAssert(len(t.Events) == len(ex.changes), "a transaction carries exactly the changes logged between its boundaries")
	for i, ci := range ex.changes {
		vhAssert(t.Events[i].Timestamp == int64(ci), "changes arrive in log order, each exactly once")
		src := h.evs[h.posOf(ci)]
		var want StatementType
		switch src.kind {
		case kWrite:
			want = StatementInsert
		case kUpdate:
			want = StatementUpdate
		case kDelete:
			want = StatementDelete
		default:
			want = GetStatementCategory(src.sql)
		}
		vhAssert(t.Events[i].Type == want, "change kind")
		if src.kind == kQuery {
			vhAssert(t.Events[i].Query.SQL == src.sql, "SQL text")
		}
	}
	vhAssert(t.Timestamp == int64(h.evs[h.posOf(ex.commitIdx)].ts), "transaction timestamp is the commit event's")
	if labels {
		vhAssert(t.NowPosition.Filename == ex.now.Filename && t.NowPosition.Offset == ex.now.Offset, "start label = previous end label / initial position / rotation target")
		vhAssert(t.NextPosition.Filename == ex.next.Filename && t.NextPosition.Offset == ex.next.Offset, "end label = end offset of the commit event in the current file")
	}
}

// VH_C02_Grouping: U units, ins ignorable events inserted anywhere.
func VH_C02_Grouping(U, ins int) {
	h := vhGenHistory(U, ins, false)
	s := newModelStreamer(h, &vMapper{})
	ch := h.channel()
	total := len(h.evs)
	calls := 0
	s.sendTransaction = func(t *Transaction) error {
		vhAssert(calls < len(h.exp), "handler invoked only at commit points")
		// nothing is delivered before its commit event has been read, and nothing later
		consumed := total - len(ch)
		vhAssert(consumed == h.posOf(h.exp[calls].commitIdx)+1, "delivery happens exactly when the commit event has been read")
		vhCheckTran(h, calls, t, false)
		calls++
		return nil
	}
	_, err := s.parseEvents(context.Background(), ch)
	vhAssert(err == nil, "well-formed history parses without error")
	vhAssert(calls == len(h.exp), "one transaction per committed unit")
	vhAssert(!h.ghost.touchedInvalid, "no invalid event touched")
	vhObserve("calls", uint64(calls))
	vhCover("grouping")
}

// VH_C08_Retain: the handler keeps every transaction it is given; after the stream has ended
// (any amount of further stream activity) each retained transaction still reads exactly as it
// did at delivery time: same changes in the same order, same kinds, SQL, timestamps and labels.
func VH_C08_Retain(U int) {
	h := vhGenHistory(U, 0, false)
	s := newModelStreamer(h, &vMapper{})
	ch := h.channel()
	var kept []*Transaction
	var keptEvents [][]*StreamEvent
	s.sendTransaction = func(t *Transaction) error {
		vhCheckTran(h, len(kept), t, true)
		kept = append(kept, t)
		keptEvents = append(keptEvents, append([]*StreamEvent{}, t.Events...))
		return nil
	}
	_, err := s.parseEvents(context.Background(), ch)
	vhAssert(err == nil, "well-formed history parses without error")
	for k, t := range kept {
		vhAssert(len(t.Events) == len(keptEvents[k]), "a delivered transaction keeps its changes after further stream activity")
		for i := range keptEvents[k] {
			vhAssert(t.Events[i] == keptEvents[k][i], "a delivered transaction's change list is not overwritten by later transactions")
		}
		vhCheckTran(h, k, t, true)
	}
	vhCover("retain")
}

var vKeywords = []string{"begin", "commit", "rollback", "insert", "update", "delete", "create", "alter", "drop", "truncate", "rename", "set"}
var vKwTypes = []StatementType{StatementBegin, StatementCommit, StatementRollback, StatementInsert, StatementUpdate, StatementDelete,
	StatementCreate, StatementAlter, StatementDrop, StatementTruncate, StatementRename, StatementSet}

// VH_C02_Category: keyword kw in arbitrary letter case, followed by a tail of
// tailLen arbitrary bytes after a space (tailLen 0: the bare keyword).
func VH_C02_Category(kw, tailLen int) {
	word := vKeywords[kw]
	b := vhBytes(len(word))
	for i := range b {
		vhAssume(b[i]|0x20 == word[i])
		vhAssume(b[i]&0x40 != 0)
	}
	sql := string(b)
	if tailLen > 0 {
		sql = sql + " " + string(vhBytes(tailLen-1))
	}
	vhAssert(GetStatementCategory(sql) == vKwTypes[kw], "boundary and statement keywords are recognised whatever their letter case")
	// a first word that is not a keyword (one letter changed; no two keywords
	// differ in a single letter) is an unknown statement
	j := vhChoose(len(word))
	c := vhU8()
	vhAssume(c < 0x80)
	vhAssume(c != ' ')
	vhAssume(c|0x20 != word[j])
	b2 := make([]byte, len(word))
	copy(b2, b)
	b2[j] = c
	vhAssert(GetStatementCategory(string(b2)) == StatementUnknown, "a word that is no keyword is an unknown statement")
	// a longer word that merely STARTS with a keyword (rollbacks, commitment, settle ...) and a keyword
	// that lost its last letter are unknown statements too (no keyword is a prefix of another one)
	ext := vhBytes(1 + vhChoose(2))
	for i := range ext {
		vhAssume((ext[i] >= 'a' && ext[i] <= 'z') || (ext[i] >= 'A' && ext[i] <= 'Z') || ext[i] == '_' || (ext[i] >= '0' && ext[i] <= '9'))
	}
	longer := string(b) + string(ext)
	vhAssert(GetStatementCategory(longer) == StatementUnknown, "a longer word that starts with a keyword is an unknown statement")
	vhAssert(GetStatementCategory(longer+" x") == StatementUnknown, "a longer first word that starts with a keyword is an unknown statement")
	if len(word) > 3 {
		vhAssert(GetStatementCategory(string(b[:len(b)-1])) == StatementUnknown, "a truncated keyword is an unknown statement")
	}
	vhCover("category")
}

// VH_C03_Labels: positions symbolic (32-bit next-positions, 64-bit rotate offsets, start offset).
func VH_C03_Labels(U int) {
	h := vhGenHistory(U, 0, true)
	s := newModelStreamer(h, &vMapper{})
	ch := h.channel()
	calls := 0
	s.sendTransaction = func(t *Transaction) error {
		vhCheckTran(h, calls, t, true)
		calls++
		// the transaction belongs to the handler now: recycling it must not disturb the labels of the
		// following transactions or the position the parser keeps
		*t = Transaction{NowPosition: Position{Filename: "recycled", Offset: 1}, NextPosition: Position{Filename: "recycled", Offset: 2}}
		return nil
	}
	pos, err := s.parseEvents(context.Background(), ch)
	vhAssert(err == nil, "well-formed history parses without error")
	vhAssert(calls == len(h.exp), "one transaction per committed unit")
	want := vhBoundary(h, len(h.evs), calls)
	vhAssert(pos.Filename == want.Filename && pos.Offset == want.Offset, "the position kept at the end is the last end label (moved by later rotations)")
	vhCover("labels")
}

// VH_C03_OpenRotate: a log rotation arrives while a transaction is still open (its file ends after
// BEGIN and some statements, without a commit: the tail of a file cut short). The rotation still
// takes effect: the transactions of the new file -- each opened by its own BEGIN -- are labelled
// with the rotation target and the new file's offsets, and the unfinished changes are never
// delivered. (What a statement WITHOUT a BEGIN means right after an unfinished transaction is not
// stated by any property, so the units that follow the rotation here all start with BEGIN.)
func VH_C03_OpenRotate() {
	h := &vHist{ghost: &vGhost{}, tables: []string{"ta", "tb"}}
	g := &vGen{h: h, symbolic: true}
	h.start = Position{Filename: "f2", Offset: int64(vhU32())}
	g.file, g.off = h.start.Filename, h.start.Offset
	g.add(&vEvent{kind: kRotate, rotName: h.start.Filename, rotPos: h.start.Offset})
	g.add(&vEvent{kind: kFDE})
	if vhChoose(2) == 1 {
		g.unit(uTxXID)
	}
	g.add(&vEvent{kind: kQuery, sql: g.kw(0)})
	g.stmt(0, 1)
	g.unit(uRotate)
	g.unit([]int{uTxXID, uTxCommit, uTxRollback}[vhChoose(3)])
	s := newModelStreamer(h, &vMapper{})
	calls := 0
	s.sendTransaction = func(t *Transaction) error {
		vhCheckTran(h, calls, t, true)
		calls++
		return nil
	}
	pos, err := s.parseEvents(context.Background(), h.channel())
	vhAssert(err == nil, "history with an unfinished transaction before a rotation parses without error")
	vhAssert(calls == len(h.exp), "one transaction per committed unit, none for the unfinished one")
	want := vhBoundary(h, len(h.evs), calls)
	vhAssert(pos.Filename == want.Filename && pos.Offset == want.Offset, "the position kept at the end is the last end label (moved by later rotations)")
	vhCover("open-rotate")
}

var _ replication.BinlogEvent = (*vEvent)(nil)
