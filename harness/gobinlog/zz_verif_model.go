//go:build verif

package gobinlog

// Event model for the parseEvents harnesses (DESIGN.md appendix D): a
// harness-side implementation of replication.BinlogEvent, a model table
// mapper, and a generator of histories from the unit grammar of C02.

import (
	"context"
	"errors"
	"time"

	"github.com/Breeze0806/gobinlog/replication"
)

const (
	kFDE = iota
	kQuery
	kXID
	kGTID
	kRotate
	kIntVar
	kRand
	kPrevGTIDs
	kRowsQuery
	kTableMap
	kWrite
	kUpdate
	kDelete
	kOther // heartbeat / unknown event type
)

// failure points of an event's accessors
const (
	fNone = iota
	fFormat
	fStrip
	fQuery
	fRotate
	fTableMap
	fRows
)

type vEvent struct {
	valid   bool
	kind    int
	ts      uint32
	next    uint32
	sql     string
	db      string
	rotName string
	rotPos  int64
	tableID uint64
	tm      *replication.TableMap
	rows    replication.Rows
	fail    int
	ghost   *vGhost
	idx     int
}

type vGhost struct {
	touchedInvalid bool // a method other than IsValid was called on an invalid event
}

var errV = errors.New("model event accessor failure")

func (e *vEvent) touch() {
	if !e.valid && e.ghost != nil {
		e.ghost.touchedInvalid = true
	}
}

func (e *vEvent) IsValid() bool { return e.valid }
func (e *vEvent) is(k int) bool {
	e.touch()
	return e.kind == k
}
func (e *vEvent) IsFormatDescription() bool { return e.is(kFDE) }
func (e *vEvent) IsQuery() bool             { return e.is(kQuery) }
func (e *vEvent) IsXID() bool               { return e.is(kXID) }
func (e *vEvent) IsGTID() bool              { return e.is(kGTID) }
func (e *vEvent) IsRotate() bool            { return e.is(kRotate) }
func (e *vEvent) IsIntVar() bool            { return e.is(kIntVar) }
func (e *vEvent) IsRand() bool              { return e.is(kRand) }
func (e *vEvent) IsPreviousGTIDs() bool     { return e.is(kPrevGTIDs) }
func (e *vEvent) IsRowsQuery() bool         { return e.is(kRowsQuery) }
func (e *vEvent) IsTableMap() bool          { return e.is(kTableMap) }
func (e *vEvent) IsWriteRows() bool         { return e.is(kWrite) }
func (e *vEvent) IsUpdateRows() bool        { return e.is(kUpdate) }
func (e *vEvent) IsDeleteRows() bool        { return e.is(kDelete) }
func (e *vEvent) IsPseudo() bool            { e.touch(); return false }
func (e *vEvent) Bytes() []byte             { e.touch(); return nil }
func (e *vEvent) Timestamp() uint32         { e.touch(); return e.ts }
func (e *vEvent) NextPosition() int64       { e.touch(); return int64(e.next) }

func (e *vEvent) Format() (replication.BinlogFormat, error) {
	e.touch()
	if e.fail == fFormat {
		return replication.BinlogFormat{}, errV
	}
	return replication.BinlogFormat{FormatVersion: 4, ServerVersion: "5.7.0", HeaderLength: 19, HeaderSizes: make([]byte, 40)}, nil
}

func (e *vEvent) GTID(replication.BinlogFormat) (replication.GTID, bool, error) {
	e.touch()
	return nil, false, nil
}

func (e *vEvent) Query(replication.BinlogFormat) (replication.Query, error) {
	e.touch()
	if e.fail == fQuery {
		return replication.Query{}, errV
	}
	return replication.Query{Database: e.db, SQL: e.sql}, nil
}

func (e *vEvent) IntVar(replication.BinlogFormat) (byte, uint64, error) { e.touch(); return 1, 1, nil }
func (e *vEvent) Rand(replication.BinlogFormat) (uint64, uint64, error) { e.touch(); return 1, 2, nil }

func (e *vEvent) Rotate(replication.BinlogFormat) (string, int64, error) {
	e.touch()
	if e.fail == fRotate {
		return "", 0, errV
	}
	return e.rotName, e.rotPos, nil
}

func (e *vEvent) PreviousGTIDs(replication.BinlogFormat) (replication.GTIDSet, error) {
	e.touch()
	return nil, nil
}

func (e *vEvent) TableID(replication.BinlogFormat) uint64 { e.touch(); return e.tableID }

func (e *vEvent) TableMap(replication.BinlogFormat) (*replication.TableMap, error) {
	e.touch()
	if e.fail == fTableMap {
		return nil, errV
	}
	return e.tm, nil
}

func (e *vEvent) Rows(replication.BinlogFormat, *replication.TableMap) (replication.Rows, error) {
	e.touch()
	if e.fail == fRows {
		return replication.Rows{}, errV
	}
	return e.rows, nil
}

func (e *vEvent) StripChecksum(replication.BinlogFormat) (replication.BinlogEvent, []byte, error) {
	e.touch()
	if e.fail == fStrip {
		return e, nil, errV
	}
	return e, nil, nil
}

// ---- model mapper ----

type vColumn struct {
	name     string
	unsigned bool
}

func (c *vColumn) Field() string       { return c.name }
func (c *vColumn) IsUnSignedInt() bool { return c.unsigned }

type vTable struct {
	name MysqlTableName
	cols []MysqlColumn
}

func (t *vTable) Name() MysqlTableName   { return t.name }
func (t *vTable) Columns() []MysqlColumn { return t.cols }

type vMapper struct {
	ncols   map[string]int // table name -> number of columns the mapper reports
	failOn  string         // table name for which the lookup fails
	uns     map[string][]bool // table name -> per-column "unsigned" answers of the mapper
	lookups []MysqlTableName
}

func (m *vMapper) MysqlTable(name MysqlTableName) (MysqlTable, error) {
	m.lookups = append(m.lookups, name)
	if name.TableName == m.failOn {
		return nil, errors.New("model mapper failure")
	}
	n, ok := m.ncols[name.TableName]
	if !ok {
		n = 1
	}
	t := &vTable{name: name}
	for i := 0; i < n; i++ {
		col := &vColumn{name: name.TableName + "_c" + string(rune('0'+i))}
		if u := m.uns[name.TableName]; i < len(u) {
			col.unsigned = u[i]
		}
		t.cols = append(t.cols, col)
	}
	return t, nil
}

// ---- model context ----

type vCtx struct {
	done chan struct{}
	err  error
}

func newVCtx() *vCtx { return &vCtx{done: make(chan struct{})} }
func (c *vCtx) cancel() {
	vhSyncPoint(1) // context state is lock-protected in real contexts
	if c.err == nil {
		c.err = context.Canceled
		close(c.done)
	}
}
func (c *vCtx) Done() <-chan struct{} { return c.done }
func (c *vCtx) Err() error {
	vhSyncPoint(1)
	return c.err
}
func (c *vCtx) Value(key interface{}) interface{} { return nil }
func (c *vCtx) Deadline() (time.Time, bool)       { return time.Time{}, false }

// ---- history generation from the unit grammar ----

const (
	uTxXID = iota
	uTxCommit
	uTxRollback
	uDDL
	uAutoRows
	uStmtDML
	uAutoDML
	uRotate
	uKinds
)

type vExpect struct {
	changes   []int // indices of the events whose change is delivered, in order
	commitIdx int   // index of the event at which the transaction is delivered
	now, next Position
}

type vHist struct {
	evs    []*vEvent
	exp    []vExpect
	ghost  *vGhost
	start  Position
	tables []string
}

type vGen struct {
	h        *vHist
	file     string
	off      int64 // current boundary offset
	symbolic bool  // symbolic next-positions / rotate offsets (C03)
	casing   int
	rotN     int // ROTATE events emitted so far
}

func (g *vGen) add(e *vEvent) int {
	e.valid = true
	e.ghost = g.h.ghost
	e.idx = len(g.h.evs)
	e.ts = uint32(e.idx)
	if g.symbolic {
		e.next = vhU32()
	} else {
		e.next = uint32(100 + 10*e.idx)
		if e.kind == kRotate {
			// the ROTATE a master sends on its own (at the start of a dump, after a restart) is artificial:
			// its header carries end position 0; the one written at the end of a rotated file carries
			// a real one. The ROTATE that opens the dump and the 1st, 3rd ... ROTATE after it are artificial.
			if g.rotN == 0 || g.rotN%2 == 1 {
				e.next = 0
			}
			g.rotN++
		}
	}
	g.h.evs = append(g.h.evs, e)
	return e.idx
}

var vCasings = [][3]string{{"BEGIN", "COMMIT", "ROLLBACK"}, {"begin", "commit", "rollback"}, {"Begin", "cOmMiT", "RollBack"}}

func (g *vGen) kw(i int) string {
	s := vCasings[g.casing%3][i]
	g.casing++
	return s
}

// one-column VARCHAR table; payload one symbolic byte (no digit forks)
func vTM(name string) *replication.TableMap {
	tm := &replication.TableMap{Database: "db", Name: name, Types: []byte{replication.TypeVarchar}, Metadata: []uint16{10},
		CanBeNull: replication.NewServerBitmap(1)}
	return tm
}

func vRows(kind int) replication.Rows {
	r := replication.Rows{}
	row := replication.Row{}
	if kind == kUpdate || kind == kDelete {
		r.IdentifyColumns = replication.NewServerBitmap(1)
		r.IdentifyColumns.Set(0, true)
		row.NullIdentifyColumns = replication.NewServerBitmap(1)
		row.Identify = []byte{1, vhU8()}
	}
	if kind == kWrite || kind == kUpdate {
		r.DataColumns = replication.NewServerBitmap(1)
		r.DataColumns.Set(0, true)
		row.NullColumns = replication.NewServerBitmap(1)
		row.Data = []byte{1, vhU8()}
	}
	r.Rows = []replication.Row{row}
	return r
}

// stmt emits TABLE_MAP + n rows events for table t; returns the change indices.
func (g *vGen) stmt(t int, n int) []int {
	name := g.h.tables[t]
	g.add(&vEvent{kind: kTableMap, tableID: uint64(10 + t), tm: vTM(name)})
	var ch []int
	for i := 0; i < n; i++ {
		k := []int{kWrite, kUpdate, kDelete}[vhChoose(3)]
		ch = append(ch, g.add(&vEvent{kind: k, tableID: uint64(10 + t), rows: vRows(k)}))
	}
	return ch
}

func (g *vGen) deliver(changes []int, commitIdx int) {
	next := Position{Filename: g.file, Offset: int64(g.h.evs[commitIdx].next)}
	g.h.exp = append(g.h.exp, vExpect{changes: changes, commitIdx: commitIdx, now: Position{Filename: g.file, Offset: g.off}, next: next})
	g.off = next.Offset
}

// txBody emits the statements of a transaction in one of four shapes.
func (g *vGen) txBody() []int {
	switch vhChoose(4) {
	case 0:
		return g.stmt(0, 1)
	case 1:
		return g.stmt(0, 2)
	case 3:
		// a statement of the DDL category logged INSIDE the transaction (CREATE TEMPORARY TABLE does not
		// commit): it is one of the transaction's changes, delivered with the others at the commit
		ch := g.stmt(0, 1)
		ch = append(ch, g.add(&vEvent{kind: kQuery, sql: "create temporary table tt (a int)"}))
		return append(ch, g.stmt(1, 1)...)
	}
	return append(g.stmt(0, 1), g.stmt(1, 1)...)
}

func (g *vGen) unit(kind int) {
	switch kind {
	case uTxXID:
		g.add(&vEvent{kind: kQuery, sql: g.kw(0)})
		ch := g.txBody()
		g.deliver(ch, g.add(&vEvent{kind: kXID}))
	case uTxCommit:
		g.add(&vEvent{kind: kQuery, sql: g.kw(0)})
		ch := g.txBody()
		g.deliver(ch, g.add(&vEvent{kind: kQuery, sql: g.kw(1)}))
	case uTxRollback:
		g.add(&vEvent{kind: kQuery, sql: g.kw(0)})
		if vhChoose(2) == 1 {
			g.txBody()
		}
		g.deliver(nil, g.add(&vEvent{kind: kQuery, sql: g.kw(2)}))
	case uDDL:
		sql := []string{"create table t (a int)", "ALTER TABLE t ADD b int", "drop table t", "TRUNCATE t", "rename table a to b"}[vhChoose(5)]
		i := g.add(&vEvent{kind: kQuery, sql: sql})
		g.deliver([]int{i}, i)
	case uAutoRows:
		ch := g.stmt(vhChoose(2), 1)
		g.deliver(ch, ch[0])
	case uStmtDML:
		g.add(&vEvent{kind: kQuery, sql: g.kw(0)})
		ch := []int{g.add(&vEvent{kind: kQuery, sql: "insert into t values (1)"})}
		if vhChoose(2) == 1 {
			ch = append(ch, g.add(&vEvent{kind: kQuery, sql: "UPDATE t set a=2"}))
		}
		g.deliver(ch, g.add(&vEvent{kind: kQuery, sql: g.kw(1)}))
	case uAutoDML:
		i := g.add(&vEvent{kind: kQuery, sql: "delete from t"})
		g.deliver([]int{i}, i)
	case uRotate:
		name := []string{"f1", "f2", "f3"}[vhChoose(3)]
		pos := int64(4)
		if g.symbolic {
			pos = vhI64()
		}
		g.add(&vEvent{kind: kRotate, rotName: name, rotPos: pos})
		g.add(&vEvent{kind: kFDE})
		g.file, g.off = name, pos
	}
}

// ignorable returns an event that must not alter the grouping.
// vIgnFixed: the inserted event is always the unknown statement (histories that are expensive already)
var vIgnFixed bool

func vIgnorable() *vEvent {
	if vIgnFixed {
		return &vEvent{kind: kQuery, sql: "SAVEPOINT x"}
	}
	switch vhChoose(6) {
	case 0:
		return &vEvent{kind: kGTID}
	case 1:
		return &vEvent{kind: kPrevGTIDs}
	case 2:
		return &vEvent{kind: kOther}
	case 3:
		return &vEvent{kind: kQuery, sql: "SAVEPOINT x"}
	case 4:
		return &vEvent{kind: kQuery, sql: ""}
	}
	return &vEvent{kind: kQuery, sql: "flush logs"}
}

// vhGenHistory builds fake ROTATE + FDE + U units (+ ins ignorable events inserted
// at arbitrary positions after the FDE).
func vhGenHistory(U, ins int, symbolic bool) *vHist {
	h := &vHist{ghost: &vGhost{}, tables: []string{"ta", "tb"}}
	g := &vGen{h: h, symbolic: symbolic}
	h.start = Position{Filename: "f2", Offset: 4} // rotations go to f1 (smaller name), f2 (same name) or f3 (greater)
	if symbolic {
		h.start.Offset = int64(vhU32())
	}
	g.file, g.off = h.start.Filename, h.start.Offset
	g.add(&vEvent{kind: kRotate, rotName: h.start.Filename, rotPos: h.start.Offset})
	g.add(&vEvent{kind: kFDE})
	for u := 0; u < U; u++ {
		g.unit(vhChoose(uKinds))
	}
	// insert ignorable events; they get fresh indices at the end of the ts
	// space so that expected change indices stay valid
	for k := 0; k < ins; k++ {
		at := 2 + vhChoose(len(h.evs)-1) // any position after the FDE, including the end
		ev := vIgnorable()
		ev.valid, ev.ghost = true, h.ghost
		ev.ts = uint32(1000 + k)
		ev.next = 7
		ev.idx = -1
		h.evs = append(h.evs, nil)
		copy(h.evs[at+1:], h.evs[at:])
		h.evs[at] = ev
	}
	return h
}

// position of an event (by its original index) in the final list
func (h *vHist) posOf(idx int) int {
	for i, e := range h.evs {
		if e.idx == idx {
			return i
		}
	}
	return -1
}

func (h *vHist) channel() chan replication.BinlogEvent {
	ch := make(chan replication.BinlogEvent, len(h.evs))
	for _, e := range h.evs {
		ch <- e
	}
	close(ch)
	return ch
}

func newModelStreamer(h *vHist, m *vMapper) *Streamer {
	s := &Streamer{tableMapper: m}
	s.SetBinlogPosition(h.start)
	return s
}
