//go:build verif

package gobinlog

import (
	"strconv"

	"github.com/Breeze0806/gobinlog/replication"
)

// C10, streamer half: the signedness of an integer column comes from the table
// mapper's column AT THE SAME ORDINAL, in full and in partial row images, for
// after images (getValuesFromRow) and before images (getIdentifiesFromRow).

func init() {
	vhRegister("VH_C10_RowSign", func(p []int) { VH_C10_RowSign(p[0]) })
}

// VH_C10_RowSign: table TINY, SHORT, TINY [, SHORT]; every column's signedness flag, the
// presence pattern (any non-empty subset), the image kind and every cell byte are free.
func VH_C10_RowSign(ncols int) {
	shapes := []vCellShape{{replication.TypeTiny, 0, 1}, {replication.TypeShort, 0, 2}, {replication.TypeTiny, 0, 1}, {replication.TypeShort, 0, 2}}[:ncols]
	tc := vRowTable(shapes)
	uns := make([]bool, ncols)
	for c := range uns {
		uns[c] = vhChoose(2) == 1
		tc.table.Columns()[c].(*vColumn).unsigned = uns[c]
	}
	pres := 1 + vhChoose((1<<uint(ncols))-1)
	useIdentify := vhChoose(2) == 1
	np := 0
	var data []byte
	want := make([][]byte, ncols)
	for c := 0; c < ncols; c++ {
		if pres&(1<<uint(c)) == 0 {
			continue
		}
		np++
		b := vhBytes(shapes[c].size)
		data = append(data, b...)
		var u uint64
		for i := len(b) - 1; i >= 0; i-- {
			u = u<<8 | uint64(b[i])
		}
		if uns[c] {
			want[c] = strconv.AppendUint(nil, u, 10)
			continue
		}
		switch shapes[c].size {
		case 1:
			want[c] = strconv.AppendInt(nil, int64(int8(u)), 10)
		case 2:
			want[c] = strconv.AppendInt(nil, int64(int16(u)), 10)
		default:
			want[c] = strconv.AppendInt(nil, int64(int32(u)), 10)
		}
	}
	rs := &replication.Rows{DataColumns: replication.NewServerBitmap(ncols), IdentifyColumns: replication.NewServerBitmap(ncols)}
	row := replication.Row{NullColumns: replication.NewServerBitmap(np), NullIdentifyColumns: replication.NewServerBitmap(np)}
	for c := 0; c < ncols; c++ {
		on := pres&(1<<uint(c)) != 0
		if useIdentify {
			rs.IdentifyColumns.Set(c, on)
		} else {
			rs.DataColumns.Set(c, on)
		}
	}
	var rd *RowData
	var err error
	if useIdentify {
		row.Identify = data
		rs.Rows = []replication.Row{row}
		rd, err = getIdentifiesFromRow(tc, rs, 0)
	} else {
		row.Data = data
		rs.Rows = []replication.Row{row}
		rd, err = getValuesFromRow(tc, rs, 0)
	}
	vhAssert(err == nil && rd != nil, "row decodes")
	vhAssert(len(rd.Columns) == ncols, "one entry per table column")
	for c := 0; c < ncols; c++ {
		col := rd.Columns[c]
		if pres&(1<<uint(c)) == 0 {
			vhAssert(col.IsEmpty && col.Data == nil, "absent column: flagged, no data")
			continue
		}
		vhAssert(!col.IsEmpty && col.Data != nil, "present integer value")
		vhAssert(len(col.Data) == len(want[c]), "decimal text length follows the column's own signedness")
		for i := range want[c] {
			vhAssert(col.Data[i] == want[c][i], "integer text is the exact value under the signedness of the mapper column at the same ordinal")
		}
	}
	vhCover("rowsign")
}
