//go:build verif

package gobinlog

import (
	"context"
	"strconv"

	"github.com/Breeze0806/gobinlog/replication"
)

// C10, streamer half: the signedness of an integer column comes from the table
// mapper's column AT THE SAME ORDINAL, in full and in partial row images, for
// after images (getValuesFromRow) and before images (getIdentifiesFromRow).

func init() {
	vhRegister("VH_C10_RowSign", func(p []int) { VH_C10_RowSign(p[0]) })
}

// VH_C10_RowSign: table TINY, SHORT, TINY [, SHORT]; every column's signedness flag, the
// presence pattern (any non-empty subset), the image kind and every cell byte are free.
// ncols >= 65: a table of ncols TINY columns, all present; the signedness flags and the cell bytes
// of columns 63, 64 and the last one are free, the others are signed zeros.
// The row travels the real path: TABLE_MAP and rows event through parseEvents, the mapper is
// consulted by the library, the delivered transaction is inspected.
func VH_C10_RowSign(ncols int) {
	wide := ncols >= 65
	var shapes []vCellShape
	free := map[int]bool{}
	if wide {
		for c := 0; c < ncols; c++ {
			shapes = append(shapes, vCellShape{replication.TypeTiny, 0, 1})
		}
		for _, c := range []int{63, 64, ncols - 1} {
			free[c] = true
		}
	} else {
		shapes = []vCellShape{{replication.TypeTiny, 0, 1}, {replication.TypeShort, 0, 2}, {replication.TypeTiny, 0, 1}, {replication.TypeShort, 0, 2}}[:ncols]
		for c := 0; c < ncols; c++ {
			free[c] = true
		}
	}
	tm := &replication.TableMap{Database: "db", Name: "ta", CanBeNull: replication.NewServerBitmap(ncols)}
	uns := make([]bool, ncols)
	for c, sh := range shapes {
		tm.Types = append(tm.Types, sh.typ)
		tm.Metadata = append(tm.Metadata, sh.meta)
		if free[c] {
			uns[c] = vhChoose(2) == 1
		}
	}
	pres := (1 << uint(ncols)) - 1
	if !wide {
		pres = 1 + vhChoose((1<<uint(ncols))-1)
	}
	present := func(c int) bool { return wide || pres&(1<<uint(c)) != 0 }
	useIdentify := vhChoose(2) == 1
	np := 0
	var data []byte
	want := make([][]byte, ncols)
	for c := 0; c < ncols; c++ {
		if !present(c) {
			continue
		}
		np++
		b := make([]byte, shapes[c].size)
		if free[c] {
			b = vhBytes(shapes[c].size)
		}
		data = append(data, b...)
		var u uint64
		for i := len(b) - 1; i >= 0; i-- {
			u = u<<8 | uint64(b[i])
		}
		if uns[c] {
			want[c] = strconv.AppendUint(nil, u, 10)
			continue
		}
		switch shapes[c].size {
		case 1:
			want[c] = strconv.AppendInt(nil, int64(int8(u)), 10)
		case 2:
			want[c] = strconv.AppendInt(nil, int64(int16(u)), 10)
		default:
			want[c] = strconv.AppendInt(nil, int64(int32(u)), 10)
		}
	}
	rs := replication.Rows{DataColumns: replication.NewServerBitmap(ncols), IdentifyColumns: replication.NewServerBitmap(ncols)}
	row := replication.Row{NullColumns: replication.NewServerBitmap(np), NullIdentifyColumns: replication.NewServerBitmap(np)}
	for c := 0; c < ncols; c++ {
		if useIdentify {
			rs.IdentifyColumns.Set(c, present(c))
		} else {
			rs.DataColumns.Set(c, present(c))
		}
	}
	kind := kWrite
	if useIdentify {
		kind = kDelete
		row.Identify = data
	} else {
		row.Data = data
	}
	rs.Rows = []replication.Row{row}
	h := &vHist{ghost: &vGhost{}, start: Position{Filename: "f0", Offset: 4}, tables: []string{"ta", "tb"}}
	g := &vGen{h: h}
	g.file, g.off = "f0", 4
	g.add(&vEvent{kind: kRotate, rotName: "f0", rotPos: 4})
	g.add(&vEvent{kind: kFDE})
	g.add(&vEvent{kind: kTableMap, tableID: 10, tm: tm})
	g.add(&vEvent{kind: kind, tableID: 10, rows: rs})
	s := newModelStreamer(h, &vMapper{ncols: map[string]int{"ta": ncols}, uns: map[string][]bool{"ta": uns}})
	var rd *RowData
	calls := 0
	s.sendTransaction = func(t *Transaction) error {
		calls++
		vhAssert(len(t.Events) == 1, "one change")
		ev := t.Events[0]
		if useIdentify {
			vhAssert(len(ev.RowIdentifies) == 1, "one before image")
			rd = ev.RowIdentifies[0]
		} else {
			vhAssert(len(ev.RowValues) == 1, "one after image")
			rd = ev.RowValues[0]
		}
		return nil
	}
	_, err := s.parseEvents(context.Background(), h.channel())
	vhAssert(err == nil && calls == 1 && rd != nil, "row decodes and is delivered")
	vhAssert(len(rd.Columns) == ncols, "one entry per table column")
	for c := 0; c < ncols; c++ {
		col := rd.Columns[c]
		if !present(c) {
			vhAssert(col.IsEmpty && col.Data == nil, "absent column: flagged, no data")
			continue
		}
		vhAssert(!col.IsEmpty && col.Data != nil, "present integer value")
		vhAssert(len(col.Data) == len(want[c]), "decimal text length follows the column's own signedness")
		for i := range want[c] {
			vhAssert(col.Data[i] == want[c][i], "integer text is the exact value under the signedness of the mapper column at the same ordinal")
		}
	}
	vhCover("rowsign")
}
